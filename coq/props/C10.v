(* Property C10 - only complete recordings ever bear the .cptv name; crashes leave no debris.
   Proof on the file life-cycle model (model/FileRec.v); the operating system's behaviour
   (atomic rename, unlink, kill between system calls) is tied to it by running the real
   recorder under strace: namespace-operation traces and SIGKILL at every system call. *)
From Coq Require Import String.
From Coq Require Import String List ZArith Bool.
From TR Require Import Extracted model.FileRec proofs.FileRecProofs.
(* constants and wiring read from the Go sources on every run *)
From TR Require Import model.GoSem model.FileRec model.FileExt translated.FileRecorder proofs.TieFile.
From TR Require Import proofs.FactsDeps.
Import ListNotations.
Close Scope string_scope.
Open Scope list_scope.
Open Scope Z_scope.

(* At every instant - after EVERY prefix of the primitive steps of every well-formed sequence
   of StartRecording / StopRecording / Stop() calls (distinct recordings having distinct time
   stamps), i.e. at every crash point between and inside the calls and for a concurrent
   observer - every name ending in .cptv holds a complete recording. *)
Theorem C10_names_complete : forall cs p,
    wf_calls None (-1) cs = true ->
    (exists q, p ++ q = expand_all cs) ->
    cptv_complete (fops_apply [] p).
Proof. exact names_complete. Qed.

(* After a crash at ANY point the start-up clean-up leaves only names ending in .cptv - with
   the scratch-file pattern and the constant-recordings directory covered ... *)
Theorem C10_recovery_clean : forall d n s,
    In (n, s) (recover true true d) -> n_ext n = Cptv.
Proof. exact recovery_clean. Qed.

(* ... which is what deleteTempFiles covers in the Go source as it is now (Extracted.v is
   regenerated from cmd/thermal-recorder/cptvfilerecorder.go on every run) ... *)
Theorem C10_cleanup_covers :
  delete_temp_patterns = ["*.cptv.temp"; "*.cptv.temp.tmp"]%string /\
  delete_temp_dirs = ["."; "constant-recordings"]%string.
Proof. split; reflexivity. Qed.

(* ... and it removes no complete recording. *)
Theorem C10_recovery_keeps_recordings : forall ct cc d n s,
    In (n, s) d -> n_ext n = Cptv -> In (n, s) (recover ct cc d).
Proof. exact recovery_keeps_recordings. Qed.

(* Both parts are necessary (the original clean-up had neither: fixed in /repo). *)
Theorem C10_without_tmp_pattern_refuted :
  exists p, (exists q, p ++ q = expand_all [RStart DOut 1]) /\
            exists n s, In (n, s) (recover false true (fops_apply [] p)) /\ n_ext n <> Cptv.
Proof. exact recovery_without_tmp_pattern_refuted. Qed.

Theorem C10_without_const_dir_refuted :
  exists p, (exists q, p ++ q = expand_all [RStart DConst 1]) /\
            exists n s, In (n, s) (recover true false (fops_apply [] p)) /\ n_ext n <> Cptv.
Proof. exact recovery_without_const_dir_refuted. Qed.

(* non-vacuity: two recordings, the second killed between the unlink of its scratch file and
   the rename: one complete .cptv, one complete-but-still-temporary file, which recovery removes *)
Definition calls := [RStart DOut 1; RStop DOut 1 [11; 12]; RStart DOut 2; RStop DOut 2 [21]].
Example C10_ex :
  wf_calls None (-1) calls = true /\
  fops_apply [] (firstn 11 (expand_all calls)) =
    [(mkName DOut 2 Temp, Complete [21]); (mkName DOut 1 Cptv, Complete [11; 12])] /\
  recover true true (fops_apply [] (firstn 11 (expand_all calls))) = [(mkName DOut 1 Cptv, Complete [11; 12])].
Proof. vm_compute. auto. Qed.

(* ---- source tie: cmd/thermal-recorder/cptvfilerecorder.go as it is in /repo now ----
   coq/translated/FileRecorder.v is regenerated from the Go source on every run; model/FileExt.v gives the
   calls that leave it (string functions, time, the CPTV writer, rename / remove) their meaning and logs what
   reaches the file system.  For every well-formed sequence of StartRecording / WriteFrame / StopRecording /
   Stop() calls on either directory, the file operations the translated recorder causes are exactly the step
   expansion the theorems above are about: the compressed file is finished and the scratch file unlinked
   BEFORE the rename to the final name; Stop() removes the temporary after closing it; and a start that fails
   at file creation or at the header leaves no open writer behind, so nothing unfinished can later receive a
   final name. *)
Theorem C10_source_file_operations : forall d cs,
    fcalls_wf false cs = true ->
    let w := snd (src_frun d cs) in
    fops_of w [] (fw_log w) = expand_all (rcalls_of d None [] cs).
Proof. exact tie_file_ops. Qed.

Theorem C10_source_failed_header_not_kept : forall r w bg th,
    fw_fail_new w = false -> fw_fail_hdr w = true -> CPTVFileRecorder_writer r = 0 ->
    sget w (CPTVFileRecorder_outputDir r) = SDir DOut -> CPTVFileRecorder_constantRecorder r = false ->
    exists w' wr, CPTVFileRecorder_StartRecording fext r bg th w = Ok (r, 1) w' /\
               last (fw_log w') (EAutoFFC true) = EClose wr.
Proof. exact tie_start_fails_at_header. Qed.
