(* Property C10 - only complete recordings ever bear the .cptv name; crashes leave no debris.
   Proof on the file life-cycle model (model/FileRec.v); the operating system's behaviour
   (atomic rename, unlink, kill between system calls) is tied to it by running the real
   recorder under strace: namespace-operation traces and SIGKILL at every system call. *)
From Coq Require Import String.
From Coq Require Import String List ZArith Bool.
From TR Require Import Extracted model.FileRec proofs.FileRecProofs.
(* constants and wiring read from the Go sources on every run *)
From TR Require Import model.GoSem model.FileRec model.FileExt translated.FileRecorder proofs.TieFile.
From TR Require Import proofs.FactsDeps.
Import ListNotations.
Close Scope string_scope.
Open Scope list_scope.
Open Scope Z_scope.

(* At every instant - after EVERY prefix of the primitive steps of every well-formed sequence
   of StartRecording / StopRecording / Stop() calls (distinct recordings having distinct time
   stamps), i.e. at every crash point between and inside the calls and for a concurrent
   observer - every name ending in .cptv holds a complete recording. *)
Theorem C10_names_complete : forall cs p,
    wf_calls None (-1) cs = true ->
    (exists q, p ++ q = expand_all cs) ->
    cptv_complete (fops_apply [] p).
Proof. exact names_complete. Qed.

(* After a crash at ANY point the start-up clean-up leaves only names ending in .cptv - with
   the scratch-file pattern and the constant-recordings directory covered ... *)
Theorem C10_recovery_clean : forall d n s,
    In (n, s) (recover true true d) -> n_ext n = Cptv.
Proof. exact recovery_clean. Qed.

(* ... which is what deleteTempFiles covers in the Go source as it is now (Extracted.v is
   regenerated from cmd/thermal-recorder/cptvfilerecorder.go on every run) ... *)
Theorem C10_cleanup_covers :
  delete_temp_patterns = ["*.cptv.temp"; "*.cptv.temp.tmp"]%string /\
  delete_temp_dirs = ["."; "constant-recordings"]%string.
Proof. split; reflexivity. Qed.

(* ... and it removes no complete recording. *)
Theorem C10_recovery_keeps_recordings : forall ct cc d n s,
    In (n, s) d -> n_ext n = Cptv -> In (n, s) (recover ct cc d).
Proof. exact recovery_keeps_recordings. Qed.

(* Both parts are necessary (the original clean-up had neither: fixed in /repo). *)
Theorem C10_without_tmp_pattern_refuted :
  exists p, (exists q, p ++ q = expand_all [RStart DOut 1]) /\
            exists n s, In (n, s) (recover false true (fops_apply [] p)) /\ n_ext n <> Cptv.
Proof. exact recovery_without_tmp_pattern_refuted. Qed.

Theorem C10_without_const_dir_refuted :
  exists p, (exists q, p ++ q = expand_all [RStart DConst 1]) /\
            exists n s, In (n, s) (recover true false (fops_apply [] p)) /\ n_ext n <> Cptv.
Proof. exact recovery_without_const_dir_refuted. Qed.

(* non-vacuity: two recordings, the second killed between the unlink of its scratch file and
   the rename: one complete .cptv, one complete-but-still-temporary file, which recovery removes *)
Definition calls := [RStart DOut 1; RStop DOut 1 [11; 12]; RStart DOut 2; RStop DOut 2 [21]].
Example C10_ex :
  wf_calls None (-1) calls = true /\
  fops_apply [] (firstn 11 (expand_all calls)) =
    [(mkName DOut 2 Temp, Complete [21]); (mkName DOut 1 Cptv, Complete [11; 12])] /\
  recover true true (fops_apply [] (firstn 11 (expand_all calls))) = [(mkName DOut 1 Cptv, Complete [11; 12])].
Proof. vm_compute. auto. Qed.

(* ---- source tie: cmd/thermal-recorder/cptvfilerecorder.go as it is in /repo now ----
   coq/translated/FileRecorder.v is regenerated from the Go source on every run; model/FileExt.v gives the
   calls that leave it (string functions, time, the CPTV writer, rename / remove) their meaning and logs what
   reaches the file system.  For every well-formed sequence of StartRecording / WriteFrame / StopRecording /
   Stop() calls on either directory, the file operations the translated recorder causes are exactly the step
   expansion the theorems above are about: the compressed file is finished and the scratch file unlinked
   BEFORE the rename to the final name; Stop() removes the temporary after closing it; and a start that fails
   at file creation or at the header leaves no open writer behind, so nothing unfinished can later receive a
   final name. *)
Theorem C10_source_file_operations : forall d cs,
    fcalls_wf false cs = true ->
    let w := snd (src_frun d cs) in
    fops_of w [] (fw_log w) = expand_all (rcalls_of d None [] cs).
Proof. exact tie_file_ops. Qed.

Theorem C10_source_failed_header_not_kept : forall r w bg th,
    fw_fail_new w = false -> fw_fail_hdr w = true -> CPTVFileRecorder_writer r = 0 ->
    sget w (CPTVFileRecorder_outputDir r) = SDir DOut -> CPTVFileRecorder_constantRecorder r = false ->
    exists w' wr, CPTVFileRecorder_StartRecording fext r bg th w = Ok (r, 1) w' /\
               last (fw_log w') (EAutoFFC true) = EClose wr.
Proof. exact tie_start_fails_at_header. Qed.

(* ---- source tie: the start-up clean-up deleteTempFiles as it is in /repo now ----
   coq/translated/FileCleanup.v is regenerated from cmd/thermal-recorder/cptvfilerecorder.go on every run (the three
   nested range loops are Gallina loops; path.Join, filepath.Join, filepath.Glob, os.Remove leave the translation);
   model/CleanExt.v states what those calls mean on a directory tree whose recorder files are the file system of
   model/FileRec.v and which holds any other files besides; proofs/TieClean.v proves, for every tree without duplicate
   directory entries, every rendering of time stamps, every os.Remove fault script:  *)
From TR Require Import model.CleanExt translated.FileCleanup proofs.TieClean.

(* no os.Remove fails: nil is returned and the recorder's files left are FileRec.v's [recover true true] - the recovery
   step of the theorems above - of the files found: every *.cptv.temp and *.cptv.temp.tmp of BOTH directories is gone
   whatever else is there and in whatever order, every .cptv is untouched; of the other files exactly those with such a
   name are gone; one os.Remove per match, in the order directory, pattern, sorted name *)
Theorem C10_source_cleanup_is_recovery : forall render t sc,
    tree_wf t -> (forall i, (i < List.length (temp_matches render t))%nat -> nth i sc false = false) ->
    exists w',
      src_clean render t sc = Ok 0 w' /\
      tr_fs (cw_tree w') = recover true true (tr_fs t) /\
      tr_other (cw_tree w') = filter (fun e => negb (m_temp (snd e) || m_temptmp (snd e))) (tr_other t) /\
      cw_log w' = map rm_ok (temp_matches render t).
Proof. exact tie_clean_all. Qed.

(* the (k+1)-th os.Remove fails: that error is returned, exactly the first k matches are gone, nothing else was tried *)
Theorem C10_source_cleanup_failed_remove : forall render t sc k d n,
    tree_wf t -> nth_error (temp_matches render t) k = Some (d, n) ->
    (forall i, (i < k)%nat -> nth i sc false = false) -> nth k sc false = true ->
    exists w',
      src_clean render t sc = Ok ERR_REMOVE w' /\
      cw_tree w' = remove_list t (firstn k (temp_matches render t)) /\
      cw_log w' = map rm_ok (firstn k (temp_matches render t)) ++ [CRm d n false].
Proof. exact tie_clean_kth_fails. Qed.

(* C10's crash sentence with [recover] replaced by the translated source: after a kill at ANY point of ANY well-formed
   call sequence, whatever other files the directories hold, the translated deleteTempFiles returns nil and leaves of
   the recorder's files only names ending in .cptv, each a complete recording, and every finished recording *)
Theorem C10_source_cleanup_after_kill : forall render cs p others sc,
    wf_calls None (-1) cs = true -> (exists q, p ++ q = expand_all cs) -> NoDup others ->
    let t := mkTree (fops_apply [] p) others in
    (forall i, (i < List.length (temp_matches render t))%nat -> nth i sc false = false) ->
    exists w',
      src_clean render t sc = Ok 0 w' /\
      tr_fs (cw_tree w') = recover true true (fops_apply [] p) /\
      (forall n s, In (n, s) (tr_fs (cw_tree w')) -> n_ext n = Cptv /\ exists frames, s = Complete frames) /\
      (forall n s, In (n, s) (fops_apply [] p) -> n_ext n = Cptv -> In (n, s) (tr_fs (cw_tree w'))).
Proof. exact cleanup_after_kill. Qed.

(* both functions of the unit are inside the translation *)
Theorem C10_source_cleanup_translated : untranslated_FileCleanup = [].
Proof. reflexivity. Qed.

(* non-vacuity (evaluated): an unfinished recording OLDER than a finished one, scratch files, other files in both
   directories - the clean-up leaves exactly the finished recordings and the unrelated files; a failing third remove *)
Example C10_source_cleanup_ex :
  show_clean (src_clean render3 ex_tree []) =
    Some (0,
          mkTree [(mkName DOut 5 Cptv, Complete [51; 52]); (mkName DConst 2 Cptv, Complete [21])]
                 [(DOut, "notes.txt"%string); (DConst, "old.cptv.bak"%string)],
          [CRm DOut (NRec 3 Temp) true; CRm DOut (NOther "zz.cptv.temp") true; CRm DOut (NRec 3 TempTmp) true;
           CRm DConst (NRec 7 Temp) true; CRm DConst (NOther "a.cptv.temp.tmp") true]) /\
  show_clean (src_clean render3 ex_tree [false; false; true]) =
    Some (ERR_REMOVE,
          mkTree [(mkName DOut 5 Cptv, Complete [51; 52]); (mkName DOut 3 TempTmp, Partial);
                  (mkName DConst 7 Temp, Partial); (mkName DConst 2 Cptv, Complete [21])]
                 [(DOut, "notes.txt"%string); (DConst, "old.cptv.bak"%string); (DConst, "a.cptv.temp.tmp"%string)],
          [CRm DOut (NRec 3 Temp) true; CRm DOut (NOther "zz.cptv.temp") true; CRm DOut (NRec 3 TempTmp) false]).
Proof. exact (conj (proj1 ex_clean_all) ex_clean_third_fails). Qed.

(* ---- deleteExcessRecordings (the constant recorder's space reclaim, same unit) ----
   It removes the lexicographically first *.cptv* name of the directory, one per round, until Statfs reports more than
   30 % of the blocks available (integer arithmetic: at least 31 %); for EVERY fuel, tree, fault script and sequence of
   Statfs answers the translated function computes [excess_model] (proofs/TieClean.v: tie_deleteExcessRecordings). *)
Theorem C10_source_excess_reclaims : forall render d low hi rest t sc fuel,
    tree_wf t ->
    (List.length low <= List.length (glob_pred render t d m_anycptv))%nat -> (List.length low < fuel)%nat ->
    Forall low_space low -> enough_space hi ->
    (forall i, (i < List.length low)%nat -> nth i sc false = false) ->
    let gone := map (pair d) (firstn (List.length low) (glob_pred render t d m_anycptv)) in
    exists w',
      src_excess render fuel d t sc (map answer low ++ answer hi :: rest) = Ok (Some 0) w' /\
      cw_tree w' = remove_list t gone /\ cw_log w' = map rm_ok gone.
Proof. exact tie_excess_reclaims. Qed.

(* FINDING (latent, not reachable through the recorder's own call sequences): the pattern does not tell a finished
   recording from one still being written - if the first name is an unfinished <T>.cptv.temp, that is what is unlinked *)
Theorem C10_source_excess_unlinks_unfinished_first : forall render d t ts ns ba bl sf sc lg,
    glob_pred render t d m_anycptv = NRec ts Temp :: ns ->
    bl <> 0 -> Z.quot (ba * 100) bl <= 30 -> nth 0 sc false = false ->
    excess_step render d ((false, (ba, bl)) :: sf) (t, sc, lg) =
      (XNext, (tree_remove t d (NRec ts Temp), tl sc, lg ++ [CRm d (NRec ts Temp) true]), sf).
Proof. exact excess_unlinks_unfinished_first. Qed.

(* ---- the daemon's start-up sequence (runMain in cmd/thermal-recorder/main.go, from startService on) ----
   translated/MainLoop.v is the Go code as it is now; model/MainExt.v states what the calls that leave it mean
   (startService / host.Init / deleteTempFiles answer from the world, the accept loop follows a script of rounds, every
   call is an entry of a log); proofs/TieMain.v.  The clean-up itself is the translated deleteTempFiles above
   (the C10_source_cleanup theorems); here: WHEN it runs.  For every outcome of the three start-up calls, every script of rounds
   (Accept fails | a camera is served and handleConn returns anything), every final Listen error, a stale socket file or
   none, any token counter and any fuel beyond the script: *)
From TR Require Import translated.MainLoop model.MainExt proofs.TieMain.

(* result and log of the translated code are the description [daemon_result] / [daemon_log]; the listeners left open
   are [daemon_leaks] *)
Theorem C10_source_startup_tie : forall fuel start host clean its fin stale next,
    (List.length its < fuel)%nat ->
    exists w',
      src_main fuel start host clean its fin stale next = Ok (Some (daemon_result start host clean fin)) w' /\
      mw_log w' = daemon_log start host clean its fin next /\
      mw_open w' = daemon_leaks start host clean its next.
Proof. exact main_run. Qed.

(* deleteTempFiles runs exactly once - when startService and host.Init succeeded - and never otherwise *)
Theorem C10_source_startup_clean_once : forall start host clean its fin n,
    mcount is_clean (daemon_log start host clean its fin n) =
      match start, host with None, None => 1%nat | _, _ => 0%nat end.
Proof. exact clean_once. Qed.

(* BEFORE anything is served: whatever entry of the serving phase the log holds - the goroutine, a Remove of the socket,
   a Listen, an Accept, a Close, a handleConn - comes after startService, host.Init and deleteTempFiles, in that order,
   and all three returned nil.  No connection is ever served in a directory that was not cleaned *)
Theorem C10_source_startup_clean_before_serving : forall start host clean its fin n pre e post,
    daemon_log start host clean its fin n = pre ++ e :: post ->
    serving e = true ->
    start = None /\ host = None /\ clean = None /\ exists pre', pre = [MStart; MHost; MClean] ++ pre'.
Proof. exact clean_before_serving. Qed.

(* a failing startService, host.Init or deleteTempFiles ends the daemon with THAT error, and nothing of the serving
   phase happened *)
Theorem C10_source_startup_fail : forall start host clean its fin n,
    (start <> None \/ host <> None \/ clean <> None) ->
    (exists e, daemon_result start host clean fin = Zpos e /\
               (start = Some e \/ (start = None /\ host = Some e) \/ (start = None /\ host = None /\ clean = Some e))) /\
    forallb (fun ev => negb (serving ev)) (daemon_log start host clean its fin n) = true.
Proof. exact startup_fail. Qed.

(* every call the code makes has a stated meaning (no MBad entry), the whole tail is inside the translation, and every
   name under which it leaves the translation has a clause in the handler *)
Theorem C10_source_startup_no_bad_call : forall start host clean its fin n,
    bad_calls (daemon_log start host clean its fin n) = [].
Proof. exact daemon_log_no_bad. Qed.

Theorem C10_source_startup_translated :
    untranslated_MainLoop = [] /\ forallb (fun n => existsb (String.eqb n) mext_names) ext_names_MainLoop = true.
Proof. exact (conj main_untranslated main_ext_names_known). Qed.

(* non-vacuity (evaluated): the clean-up fails - its error is the result, nothing is served; host.Init fails - not even
   the clean-up runs *)
Example C10_source_startup_ex :
  show_main (src_main 10 None None (Some 3%positive) [ItServe 0] 9 false 1) = Some (Some 3, [MStart; MHost; MClean], []) /\
  show_main (src_main 10 None (Some 4%positive) None [ItServe 0] 9 false 1) = Some (Some 4, [MStart; MHost], []).
Proof. exact (conj ex_main_clean_fails ex_main_host_fails). Qed.
