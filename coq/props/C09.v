(* Property C09 - no detection during / directly after an FFC; no comparison across an FFC
   or a camera reset. *)
From Coq Require Import String.
From Coq Require Import List ZArith Bool.
From TR Require Import model.Ring model.Detector model.DetSpec proofs.DetC07 proofs.DetC09.
(* constants and wiring read from the Go sources on every run *)
From TR Require Import model.GoSem translated.MotionProcessor proofs.TieProcCorollaries.
From TR Require Import proofs.FactsDet.
From TR Require Import model.DetExt proofs.TieDet.
Import ListNotations.
Open Scope Z_scope.

(* For every stream (FFC events and resets anywhere: first frames, back-to-back FFCs, periods of
   any length), every configuration, fixed or dynamic threshold: no frame whose
   TimeOn - LastFFCTime is below the FFC period (10 s, from the Go source via Extracted.v), nor the
   frame directly following such a frame, is reported as motion. *)
Theorem C09_suppressed : forall c evs,
    S09_supp false evs (verdicts c evs) = true.
Proof. exact S09_supp_holds. Qed.

(* Fixed threshold: two streams of the same shape (resets and FFC-affected frames at the same
   positions, arbitrary different pixel content) that agree from an FFC-affected frame on give
   identical verdicts from that frame on: nothing after the start of an FFC period depends on
   the content of any frame before it. *)
Theorem C09_ffc_independent : forall c pre1 pre2 f post,
    d_dynamic c = false -> 1 <= d_count c -> 1 <= d_gap c ->
    same_shape pre1 pre2 -> affected_by_ffc f = true ->
    skipn (length pre1) (verdicts c (pre1 ++ DFrame f :: post)) =
    skipn (length pre2) (verdicts c (pre2 ++ DFrame f :: post)).
Proof. exact ffc_independent. Qed.

(* ... and likewise after a camera reset ('clear'). *)
Theorem C09_reset_independent : forall c pre1 pre2 post,
    d_dynamic c = false -> 1 <= d_count c -> 1 <= d_gap c ->
    same_shape pre1 pre2 ->
    skipn (length pre1) (verdicts c (pre1 ++ DReset :: post)) =
    skipn (length pre2) (verdicts c (pre2 ++ DReset :: post)).
Proof. exact reset_independent. Qed.

(* With a dynamic threshold the independence clause is only claimed by the property "once an FFC
   period has passed" for the background (re-seeded from the first non-FFC frame: C15_reseed);
   the threshold recomputed from that background is covered by C15. *)

(* non-vacuity: 3x3, gap 1, one-diff; a large change on the FFC frame (index 2) and on the frame
   directly after the period (index 3) is not reported; the changes on the following frames are *)
Definition cfg := mkD 3 3 0 1 true 5 1 false false 0 0 0 0.
Definition fr (v ton lffc : Z) := DFrame (mkF [[v; 0; 0]; [0; 0; 0]; [0; 0; 0]] ton lffc).
Example C09_ex :
  verdicts cfg [fr 0 60000000000 0; fr 100 61000000000 0; fr 0 62000000000 62000000000;
                fr 100 72000000000 62000000000; fr 0 73000000000 62000000000; fr 100 74000000000 62000000000]
  = [false; true; false; false; true; true].
Proof. vm_compute. reflexivity. Qed.

(* ---- source tie: motion/motion.go as it is in /repo now ----
   coq/translated/MotionDetector.v is regenerated from the Go source on every run (all 14 functions
   of the detector, pixel loops included); model/DetExt.v gives the calls that leave it - frame
   pixels and telemetry by handle, the float32 weights, every floating-point operation (computed
   with SpecFloat as in the model), debug tracker and logging - their meaning.  For every
   configuration with a non-empty interior and a compare gap >= 1, every stream of frames of the
   configured resolution with 16-bit pixels, and resets: after every event the translated detector
   has exactly the verdict, threshold, background-frame count, background and weights of the model
   the theorems above are about.  Two decidable side conditions on the model's own run: no weight
   exceeds MaxFloat32 (the Go code's clamp, dead code by rounding, is not in the model) and the
   threshold stays a 16-bit value (the Go field is a uint16; shown for all grids up to 2^20 pixels
   in props/C15.v).  A change to motion.go that changes what the detector computes on some stream
   breaks this theorem, whether or not a generated input reaches it. *)
Theorem C09_source_tie : forall c evs,
    dcfg_ok c -> Forall (event_ok c) evs ->
    weights_bounded_from c (dinit c) evs = true ->
    thresh_bounded_from c (dinit c) evs = true ->
    map (dproj c) (src_dtrace c evs) = model_dtrace c (dinit c) evs.
Proof. exact tie_detector. Qed.

(* The camera's 'clear' as motionprocessor.go handles it now: whatever stopping the open recording
   returns, MotionProcessor.Reset resets the detector - exactly once, after the stop - for every
   meaning of the outside world. *)
Theorem C09_source_reset_reaches_detector : forall (W : Type) (ext : string -> list arg -> W -> Z * W) mp w,
    match MotionProcessor_stopRecording ext mp w with
    | Ok (mp', _) w1 =>
      MotionProcessor_Reset ext mp w =
        Ok (mp', tt) (snd (ext "MotionProcessor.motionDetector.Reset"%string [ASym "camera"%string] w1))
    | Panicked w1 => MotionProcessor_Reset ext mp w = Panicked w1
    end.
Proof. exact Reset_resets_detector. Qed.

From TR Require Import proofs.Bridges.

(* ---- the detector is fed by motion/motionprocessor.go as it is now (proofs/TieProc.v, restated in proofs/Bridges.v):
   on every history the translated processor makes exactly the model's calls - every accepted frame reaches Detect exactly
   once, inside or outside the recording window, recording or not; a bad frame never does *)
Theorem C09_source_processor_feeds_detector : BProc.processor_source_tie_stmt.
Proof. exact BProc.processor_source_tie. Qed.
