(* Property C20 - the log limiter drops only exact repeats inside the interval. *)
From Coq Require Import List ZArith Bool Arith.
From TR Require Import model.LogLimiter proofs.LogLimiterProofs model.ThrExt proofs.TieCorollaries.
From TR Require Import translated.MotionProcessor proofs.FactsLog.
Import ListNotations.
Open Scope Z_scope.

(* For every history of (message, arrival time) pairs - any interval, times not assumed
   monotone, Sub saturating as in Go - message n is printed iff it is NOT (identical to
   the last message actually printed AND less than [interval] after that print).
   "Last printed" starts as the empty message at Go's zero time (the zero values of the
   limiter's fields); with a real clock that pseudo-entry is more than an interval old. *)
Theorem C20_iff : forall interval h n,
    (n < length h)%nat ->
    nth n (lrun interval linit h) true = must_print interval h (lrun interval linit h) n.
Proof. exact lrun_must_print. Qed.

Theorem C20_spec : forall interval h, spec_log interval h (lrun interval linit h) = true.
Proof. exact lrun_spec. Qed.

(* The same about the Gallina translation of loglimiter/loglimiter.go as it is in /repo now
   (coq/translated/LogLimiter.v, regenerated on every run; the clock and log.Print are the calls
   that leave it): for every injective naming of the messages by strings (0 = the empty string),
   every interval and history, the messages that reach log.Print satisfy the specification, and
   a printed line is the message itself, once. *)
Theorem C20_spec_source : forall (enc : Z -> String.string),
    (forall a b, enc a = enc b -> a = b) -> enc 0 = String.EmptyString ->
    forall interval h, spec_log interval h (src_lbits enc interval h) = true.
Proof. exact spec_log_source. Qed.

Theorem C20_printed_unmodified_source : forall (enc : Z -> String.string),
    (forall a b, enc a = enc b -> a = b) -> enc 0 = String.EmptyString ->
    forall interval h,
      Forall2 (fun o mt => o = [] \/ o = [enc (fst mt)]) (src_lrun enc (ll_init interval) h) h.
Proof. exact printed_unmodified_source. Qed.

Theorem C20_distinct_never_dropped : forall interval h n m t,
    nth_error h n = Some (m, t) ->
    let bits := lrun interval linit h in
    m <> fst (last_printed (0, 0) (firstn n h) (firstn n bits)) ->
    nth n bits true = true.
Proof. exact distinct_never_dropped. Qed.

Theorem C20_reported_again_after_interval : forall interval h n m t,
    nth_error h n = Some (m, t) ->
    let bits := lrun interval linit h in
    interval <= sat_sub t (snd (last_printed (0, 0) (firstn n h) (firstn n bits))) ->
    nth n bits true = true.
Proof. exact repeat_after_interval_printed. Qed.

Theorem C20_repeat_suppressed_window_not_extended : forall interval h n m t,
    nth_error h n = Some (m, t) ->
    let bits := lrun interval linit h in
    let lp := last_printed (0, 0) (firstn n h) (firstn n bits) in
    m = fst lp -> sat_sub t (snd lp) < interval ->
    nth n bits true = false.
Proof. exact repeat_inside_interval_suppressed. Qed.

Theorem C20_at_most_one_line_per_interval : forall interval h n m t,
    nth_error h n = Some (m, t) ->
    let bits := lrun interval linit h in
    let lp := last_printed (0, 0) (firstn n h) (firstn n bits) in
    nth n bits true = true -> m = fst lp ->
    interval <= sat_sub t (snd lp).
Proof. exact same_message_prints_spaced. Qed.

Theorem C20_first_message_printed : forall interval m t h,
    interval <= sat_sub t 0 ->
    nth 0 (lrun interval linit ((m, t) :: h)) true = true.
Proof. exact first_message_printed. Qed.

(* non-vacuity: one minute interval (6*10^10 ns), message 1 repeated every 20 s from a
   real-clock time, message 2 interleaved once; boundary exactly at the interval. *)
Definition T : Z := 63000000000000000000.
Definition s (k : Z) : Z := T + k * 1000000000.
Example C20_ex :
  lrun 60000000000 linit [(1, s 0); (1, s 20); (1, s 40); (1, s 60); (1, s 61);
                          (2, s 62); (1, s 63); (1, s 122); (1, s 123)]
  = [true; false; false; true; false; true; true; false; true].
Proof. vm_compute. reflexivity. Qed.

(* The recorder's side (motion/motionprocessor.go as it is now): every log line of the motion processor
   is handed to its limiter - no call of log.Print* / fmt.Print* leaves the translated processor - so
   what the theorems above say about the limiter is what the daemon's log shows. *)
Theorem C20_processor_logs_through_limiter :
  forallb (fun n => negb (direct_print n)) ext_names_MotionProcessor = true /\
  In logging_call ext_names_MotionProcessor.
Proof. exact processor_logs_only_through_limiter. Qed.
