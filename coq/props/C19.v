(* Property C19 - the frame ring buffer returns exactly the retained history.
   This file contains only the property theorems (closed by `exact`), their
   non-vacuity examples and Print Assumptions. *)
From Coq Require Import List ZArith Bool Arith.
From TR Require Import model.Ring model.RingSpec proofs.RingProofs.
Import ListNotations.
Open Scope Z_scope.

(* For every capacity >= 1 and every sequence of put/move/set-as-oldest/reset operations,
   GetHistory returns the last min(capacity, moves-since-mark + 1) elements of
   (values committed since creation/Reset ++ [current frame]) - oldest first, ending with
   the current frame, at most `capacity` long, never reaching behind a buffered mark
   and never into slots not written since creation/Reset. *)
Theorem C19_history : forall (A : Type) (d : A) sz blank ops,
    1 <= sz ->
    let r := fst (@reach A d sz blank ops) in
    let g := snd (@reach A d sz blank ops) in
    get_history r = Some (spec_history (Z.to_nat sz) g (current d r)).
Proof. exact get_history_refines. Qed.

Theorem C19_history_suffix : forall (A : Type) (d : A) sz blank ops,
    1 <= sz ->
    let r := fst (@reach A d sz blank ops) in
    let g := snd (@reach A d sz blank ops) in
    exists h pre,
      get_history r = Some h /\
      committed g ++ [current d r] = pre ++ h /\
      (1 <= length h <= Z.to_nat sz)%nat /\
      length h = Nat.min (Z.to_nat sz) (S (since_mark g)).
Proof. exact history_is_suffix. Qed.

(* 'Oldest' is the marked frame while it remains buffered and otherwise the frame about
   to be overwritten: in both cases the first element of the history. *)
Theorem C19_oldest : forall (A : Type) (d : A) sz blank ops,
    1 <= sz ->
    let r := fst (@reach A d sz blank ops) in
    let g := snd (@reach A d sz blank ops) in
    oldest_slot d r = spec_oldest d (Z.to_nat sz) g (current d r).
Proof. exact oldest_refines. Qed.

(* 'recent' is the frame committed by the latest Move (capacity >= 2; with capacity 1
   the previous slot is the current slot). *)
Theorem C19_recent : forall (A : Type) (d : A) sz blank ops x,
    1 <= sz ->
    let r := fst (@reach A d sz blank ops) in
    let g := snd (@reach A d sz blank ops) in
    spec_recent (Z.to_nat sz) g (current d r) = Some x -> recent d r = x.
Proof. exact recent_refines. Qed.

(* the mark disappears exactly at the capacity-th Move after it *)
Theorem C19_mark_expiry : forall (A : Type) (d : A) sz blank ops,
    1 <= sz ->
    let r := fst (@reach A d sz blank ops) in
    let g := snd (@reach A d sz blank ops) in
    (oldest r = NO_OLDEST_SET <-> (Z.to_nat sz <= since_mark g)%nat).
Proof. exact mark_expiry. Qed.

(* ---- non-vacuity: concrete wrapped histories with marks, capacities 1, 2, 5 ---- *)
Definition frames (l : list Z) : list (rop Z) := flat_map (fun v => [OPut v; OMove]) l.

Example C19_ex5 :
  let r := fst (@reach Z 0 5 0 (frames [1;2;3;4;5;6;7] ++ [OMark] ++ frames [8;9] ++ [OPut 10])) in
  get_history r = Some [8; 9; 10] /\ oldest_slot 0 r = 8 /\ recent 0 r = 9.
Proof. vm_compute. auto. Qed.

Example C19_ex5_expired :
  let r := fst (@reach Z 0 5 0 (frames [1;2] ++ [OMark] ++ frames [3;4;5;6;7] ++ [OPut 8])) in
  get_history r = Some [4; 5; 6; 7; 8] /\ oldest r = NO_OLDEST_SET.
Proof. vm_compute. auto. Qed.

Example C19_ex2 :
  let r := fst (@reach Z 0 2 0 (frames [1;2;3] ++ [OReset] ++ [OPut 4])) in
  get_history r = Some [4].
Proof. vm_compute. auto. Qed.

Example C19_ex1 :
  let r := fst (@reach Z 0 1 0 (frames [1;2;3] ++ [OPut 4])) in
  get_history r = Some [4] /\ recent 0 r = 4.
Proof. vm_compute. auto. Qed.
