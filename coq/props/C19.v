(* Property C19 - the frame ring buffer returns exactly the retained history.
   This file contains only the property theorems (closed by `exact`), their
   non-vacuity examples and Print Assumptions. *)
From Coq Require Import String.
From Coq Require Import List ZArith Bool Arith.
From TR Require Import model.Ring model.RingSpec proofs.RingProofs model.GoSem translated.FrameLoop proofs.TieRing model.RingExt proofs.TieRingRun.
(* constants and wiring read from the Go sources on every run *)
From TR Require Import proofs.FactsRing.
Import ListNotations.
Open Scope Z_scope.

(* For every capacity >= 1 and every sequence of put/move/set-as-oldest/reset operations,
   GetHistory returns the last min(capacity, moves-since-mark + 1) elements of
   (values committed since creation/Reset ++ [current frame]) - oldest first, ending with
   the current frame, at most `capacity` long, never reaching behind a buffered mark
   and never into slots not written since creation/Reset. *)
Theorem C19_history : forall (A : Type) (d : A) sz blank ops,
    1 <= sz ->
    let r := fst (@reach A d sz blank ops) in
    let g := snd (@reach A d sz blank ops) in
    get_history r = Some (spec_history (Z.to_nat sz) g (current d r)).
Proof. exact get_history_refines. Qed.

Theorem C19_history_suffix : forall (A : Type) (d : A) sz blank ops,
    1 <= sz ->
    let r := fst (@reach A d sz blank ops) in
    let g := snd (@reach A d sz blank ops) in
    exists h pre,
      get_history r = Some h /\
      committed g ++ [current d r] = pre ++ h /\
      (1 <= length h <= Z.to_nat sz)%nat /\
      length h = Nat.min (Z.to_nat sz) (S (since_mark g)).
Proof. exact history_is_suffix. Qed.

(* 'Oldest' is the marked frame while it remains buffered and otherwise the frame about
   to be overwritten: in both cases the first element of the history. *)
Theorem C19_oldest : forall (A : Type) (d : A) sz blank ops,
    1 <= sz ->
    let r := fst (@reach A d sz blank ops) in
    let g := snd (@reach A d sz blank ops) in
    oldest_slot d r = spec_oldest d (Z.to_nat sz) g (current d r).
Proof. exact oldest_refines. Qed.

(* 'recent' is the frame committed by the latest Move (capacity >= 2; with capacity 1
   the previous slot is the current slot). *)
Theorem C19_recent : forall (A : Type) (d : A) sz blank ops x,
    1 <= sz ->
    let r := fst (@reach A d sz blank ops) in
    let g := snd (@reach A d sz blank ops) in
    spec_recent (Z.to_nat sz) g (current d r) = Some x -> recent d r = x.
Proof. exact recent_refines. Qed.

(* the mark disappears exactly at the capacity-th Move after it *)
Theorem C19_mark_expiry : forall (A : Type) (d : A) sz blank ops,
    1 <= sz ->
    let r := fst (@reach A d sz blank ops) in
    let g := snd (@reach A d sz blank ops) in
    (oldest r = NO_OLDEST_SET <-> (Z.to_nat sz <= since_mark g)%nat).
Proof. exact mark_expiry. Qed.

(* ---- non-vacuity: concrete wrapped histories with marks, capacities 1, 2, 5 ---- *)
Definition frames (l : list Z) : list (rop Z) := flat_map (fun v => [OPut v; OMove]) l.

Example C19_ex5 :
  let r := fst (@reach Z 0 5 0 (frames [1;2;3;4;5;6;7] ++ [OMark] ++ frames [8;9] ++ [OPut 10])) in
  get_history r = Some [8; 9; 10] /\ oldest_slot 0 r = 8 /\ recent 0 r = 9.
Proof. vm_compute. auto. Qed.

Example C19_ex5_expired :
  let r := fst (@reach Z 0 5 0 (frames [1;2] ++ [OMark] ++ frames [3;4;5;6;7] ++ [OPut 8])) in
  get_history r = Some [4; 5; 6; 7; 8] /\ oldest r = NO_OLDEST_SET.
Proof. vm_compute. auto. Qed.

Example C19_ex2 :
  let r := fst (@reach Z 0 2 0 (frames [1;2;3] ++ [OReset] ++ [OPut 4])) in
  get_history r = Some [4].
Proof. vm_compute. auto. Qed.

Example C19_ex1 :
  let r := fst (@reach Z 0 1 0 (frames [1;2;3] ++ [OPut 4])) in
  get_history r = Some [4] /\ recent 0 r = 4.
Proof. vm_compute. auto. Qed.

(* ---- source tie: motion/frameloop.go as it is in /repo now ----
   coq/translated/FrameLoop.v is regenerated from the Go source on every run.  For every
   well-formed loop (capacity >= 1, index in range, mark in range or unset), every outside
   world and every meaning of the mutex calls, GetHistory / Oldest / Move / SetAsOldest / Reset
   of the translated code compute exactly what the model above computes (on the ring of frame
   handles), and GetHistory panics exactly where the model says the Go slice expression is out
   of range.  A change to frameloop.go that changes any of this breaks these theorems. *)
Theorem C19_source_GetHistory : forall (W : Type) (ext : string -> list arg -> W -> Z * W) fl w,
    fl_wf fl ->
    match get_history (ring_of fl) with
    | Some h => exists fl', FrameLoop_GetHistory ext fl w = Ok (fl', h) w /\ same_ring fl' fl /\ fl_wf fl'
    | None => FrameLoop_GetHistory ext fl w = Panicked w
    end.
Proof. exact @tie_GetHistory. Qed.

Theorem C19_source_Oldest : forall (W : Type) (ext : string -> list arg -> W -> Z * W) fl w d,
    fl_wf fl -> FrameLoop_Oldest ext fl w = Ok (fl, oldest_slot d (ring_of fl)) w.
Proof. exact @tie_Oldest. Qed.

Theorem C19_source_Move : forall (W : Type) (ext : string -> list arg -> W -> Z * W) fl w d,
    fl_wf fl ->
    exists fl', FrameLoop_Move ext fl w =
                  Ok (fl', current d (ring_of fl'))
                     (after_ext ext "FrameLoop.mu.Unlock" [] (after_ext ext "FrameLoop.mu.Lock" [] w)) /\
                ring_of fl' = move (ring_of fl) /\
                FrameLoop_orderedFrames fl' = FrameLoop_orderedFrames fl /\ fl_wf fl'.
Proof. exact @tie_Move. Qed.

Theorem C19_source_SetAsOldest : forall (W : Type) (ext : string -> list arg -> W -> Z * W) fl w d,
    fl_wf fl ->
    exists fl', FrameLoop_SetAsOldest ext fl w = Ok (fl', current d (ring_of fl')) w /\
                ring_of fl' = set_as_oldest (ring_of fl) /\
                FrameLoop_orderedFrames fl' = FrameLoop_orderedFrames fl /\ fl_wf fl'.
Proof. exact @tie_SetAsOldest. Qed.

Theorem C19_source_Reset : forall (W : Type) (ext : string -> list arg -> W -> Z * W) fl w,
    exists fl', FrameLoop_Reset ext fl w = Ok (fl', tt) w /\
                ring_of fl' = reset (ring_of fl) /\
                FrameLoop_orderedFrames fl' = FrameLoop_orderedFrames fl.
Proof. exact @tie_Reset. Qed.

(* Trace level: the translated FrameLoop run on ANY sequence of put / move / set-as-oldest / reset
   operations, for every capacity >= 1, shows after every operation exactly the model's
   GetHistory, Oldest, CopyRecent and Current (contents; -99 where Go would panic).  With the
   theorems above this carries C19 to the source as it is now. *)
Theorem C19_source_trace : forall sz ops,
    1 <= sz -> src_ring_run sz ops = model_trace4 (new_ring sz 0) ops.
Proof. exact tie_ring_run. Qed.
