(* Property C12 - sinks see writes only inside start..stop; faults never crash the pipeline. *)
From Coq Require Import List ZArith Bool.
From TR Require Import model.Ring model.Processor model.ProcAbs model.ProcSpec proofs.ProcRefine proofs.ProcS1217.
(* constants and wiring read from the Go sources on every run *)
From TR Require Import model.ProcExt proofs.TieProcCorollaries.
From TR Require Import proofs.FactsProc.
Import ListNotations.
Open Scope Z_scope.

(* For every event list over {valid frame (motion or not), bad frame, reset, test-recording
   request}, every placement of failures on individual start / write / stop / check calls of
   the three sinks (any fault scripts), continuous recorder on or off, every capacity >= 1:
   each sink's call sequence is accepted by the protocol automaton S12 - a write only between a
   successful start and the following stop, no start while open - and the processor never
   panics (a write on a closed sink IS the crash: a nil dereference in CPTVFileRecorder). *)
Theorem C12_sinks_well_formed : forall c fm fc ft evs,
    1 <= p_size c -> wf_ids 0 evs ->
    S12 (psteps c fm fc ft evs) = true.
Proof. exact S12_holds. Qed.

(* the ring's slice expression is always in range: the model's Panic output never occurs *)
Theorem C12_no_panic : forall c a e,
    forallb (fun x => match x with Panic => false | _ => true end) (snd (astep c a e)) = true.
Proof. exact astep_no_panic. Qed.

(* Recovery: from EVERY reachable state (after any events and faults), once the remaining
   fault script is fault-free, max+1 motionless frames followed by max 1 trigger motion frames
   with the window open contain a successful start: later motion is recorded normally
   (and that recording obeys C01-C03, which hold from every reachable state). *)
Theorem C12_recovers : forall c fm evs1,
    1 <= p_size c -> 0 <= p_min c <= p_max c -> wf_ids 0 evs1 ->
    let s := mfinal c (minit c fm) evs1 in
    let n0 := nframes evs1 in
    forallb negb (m_faults s) = true ->
    let tail := quiet n0 (Z.to_nat (p_max c + 1)) ++
                burst (n0 + p_max c + 1) (Z.to_nat (Z.max 1 (p_trig c))) in
    existsb (has_start_ok SMotion) (mrun c s tail) = true.
Proof. exact S12_recovers_holds. Qed.

(* non-vacuity: continuous recorder on, capacity 2, trigger 1, min 1, max 2 frames; a failing
   start (frame 0), a failing pre-trigger write (frame 1: the recording is cut to the trigger
   frame), another failing start (frame 2), a bad frame (closes the continuous file), then a
   recording that tiles from frame 2 *)
Definition ex_cfg := mkCfg 2 1 2 1 true.
Definition ex_evs := [EFrame 0 true true; EFrame 1 true true; EFrame 2 true true; EBad; EFrame 3 true true; EFrame 4 false true].
Example C12_ex :
  map snd (psteps ex_cfg [false; true; false; false; true; false; false; false; true] [] [] ex_evs) =
   [[LMotion; WinQ true; Call SMotion Check false; Call SMotion Start true; Call SConst Start false; Call SConst (Write 0) false];
    [LMotion; WinQ true; Call SMotion Check false; Call SMotion Start false; LStarted; Call SMotion (Write 0) true;
       Call SMotion (Write 1) false; LEnded; Call SMotion Stop false; Call SConst (Write 1) false];
    [LMotion; WinQ true; Call SMotion Check false; Call SMotion Start true; Call SConst (Write 2) false; Call SConst Stop false];
    [Call SConst Stop false];
    [LMotion; WinQ true; Call SMotion Check false; Call SMotion Start false; LStarted; Call SMotion (Write 2) false;
       Call SMotion (Write 3) false; LEnded; Call SMotion Stop false; Call SConst Start false; Call SConst (Write 3) false];
    [Call SConst (Write 4) false]].
Proof. vm_compute. reflexivity. Qed.

(* ---- source tie: motion/motionprocessor.go and motion/frameloop.go as they are in /repo now ----
   coq/translated/MotionProcessor.v and FrameLoop.v are regenerated from the Go sources on every run;
   model/ProcExt.v gives the calls that leave them (frame parser, detector verdict, recording window,
   the three sinks with their fault scripts, listener, log, mutex) the meaning the model assumes.
   For every configuration with ring capacity >= 1, every event list (valid / bad frames, resets,
   test-recording requests) and every fault script, the translated Process / Reset produce exactly the
   calls and callbacks of the model: the steps the theorems above speak about ARE the steps of the
   translated source.  A change to motionprocessor.go or frameloop.go that alters what the processor
   does on some history breaks this theorem, whether or not a generated input reaches that history. *)
Theorem C12_source_tie : forall c fm fc ft evs,
    1 <= p_size c ->
    src_psteps c fm fc ft evs = psteps c fm fc ft evs.
Proof. exact src_psteps_eq. Qed.
