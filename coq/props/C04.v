(* Property C04 - a recording starts iff motion persisted, the window is open and storage is OK. *)
From Coq Require Import String.
From TR Require Import model.GoSem model.FileRec model.FileExt translated.FileRecorder proofs.TieFile.
From Coq Require Import List ZArith Bool Lia ZifyBool.
From TR Require Import model.Ring model.Processor model.ProcAbs model.ProcSpec model.Window proofs.ProcS0304.
(* constants and wiring read from the Go sources on every run *)
From TR Require Import model.ProcExt proofs.TieProcCorollaries.
From TR Require Import proofs.FactsProc proofs.FactsDeps.
Import ListNotations.
Open Scope Z_scope.

(* For every motion bit string, every sequence of window states, every disk-check / start
   outcome script and every trigger-frames value (including 0 and negative): at every accepted
   frame a start is attempted iff no recording is open, the frame has motion and it completes
   a run of at least trigger-frames motion frames (run restarted by a motionless frame and by
   the end of a recording); the window is consulted exactly then, the disk check exactly when
   the window is open, StartRecording exactly when the check passed; nothing is attempted on
   bad frames, resets or requests.  (S04, model/ProcSpec.v.)  A refused start leaves the run
   counter running, so it is retried on the next motion frame of the run. *)
Theorem C04_start_iff : forall c fm fc ft evs,
    1 <= p_size c -> wf_ids 0 evs ->
    S04 c false (psteps c fm fc ft evs) = true.
Proof. exact S04_holds. Qed.

(* the NoWindow configuration: always open, its consultation is not observable *)
Theorem C04_start_iff_nowindow : forall c fm fc ft evs,
    1 <= p_size c -> wf_ids 0 evs -> all_win_open evs = true ->
    S04 c true (map strip_winq_step (psteps c fm fc ft evs)) = true.
Proof. exact S04_holds_nowindow. Qed.

(* the window arithmetic of window.Active() for absolute times: active on [start, end)
   modulo 24 h - for start < end ... *)
Theorem C04_window_day : forall s e tod,
    0 <= s < e -> e < 1440 -> 0 <= tod < DAY ->
    window_active (mkW s e) tod = (s * MINUTE <=? tod) && (tod <? e * MINUTE).
Proof.
  intros s e tod Hs He Ht. unfold window_active, no_window, until_next, DAY, MINUTE in *. cbn [w_start w_end].
  destruct (s =? e) eqn:E1; [lia|].
  destruct (e * 60000000000 >? tod) eqn:E2; destruct (s * 60000000000 >? tod) eqn:E3;
    destruct (s * 60000000000 <=? tod) eqn:E4; destruct (tod <? e * 60000000000) eqn:E5; cbn [andb]; lia.
Qed.

(* ... and for windows spanning midnight (start > end) *)
Theorem C04_window_midnight : forall s e tod,
    0 <= e < s -> s < 1440 -> 0 <= tod < DAY ->
    window_active (mkW s e) tod = (s * MINUTE <=? tod) || (tod <? e * MINUTE).
Proof.
  intros s e tod Hs He Ht. unfold window_active, no_window, until_next, DAY, MINUTE in *. cbn [w_start w_end].
  destruct (s =? e) eqn:E1; [lia|].
  destruct (e * 60000000000 >? tod) eqn:E2; destruct (s * 60000000000 >? tod) eqn:E3;
    destruct (s * 60000000000 <=? tod) eqn:E4; destruct (tod <? e * 60000000000) eqn:E5; cbn [orb]; lia.
Qed.

(* non-vacuity: trigger-frames 2; window closed at the second motion frame, disk check fails
   at the third, file creation fails at the fourth, recording starts at the fifth *)
Definition ex_cfg := mkCfg 2 1 3 2 false.
Definition ex_evs := [EFrame 0 true true; EFrame 1 true false; EFrame 2 true true; EFrame 3 true true; EFrame 4 true true].
Example C04_ex :
  map gates_of (map snd (psteps ex_cfg [true; false; true] [] [] ex_evs)) =
    [[]; []; [(false, true)]; [(false, false); (true, true)]; [(false, false); (true, false)]] /\
  map winq_of (map snd (psteps ex_cfg [true; false; true] [] [] ex_evs)) = [[]; [false]; [true]; [true]; [true]].
Proof. vm_compute. auto. Qed.

(* ---- source tie: motion/motionprocessor.go and motion/frameloop.go as they are in /repo now ----
   coq/translated/MotionProcessor.v and FrameLoop.v are regenerated from the Go sources on every run;
   model/ProcExt.v gives the calls that leave them (frame parser, detector verdict, recording window,
   the three sinks with their fault scripts, listener, log, mutex) the meaning the model assumes.
   For every configuration with ring capacity >= 1, every event list (valid / bad frames, resets,
   test-recording requests) and every fault script, the translated Process / Reset produce exactly the
   calls and callbacks of the model: the steps the theorems above speak about ARE the steps of the
   translated source.  A change to motionprocessor.go or frameloop.go that alters what the processor
   does on some history breaks this theorem, whether or not a generated input reaches that history. *)
Theorem C04_source_tie : forall c fm fc ft evs,
    1 <= p_size c ->
    src_psteps c fm fc ft evs = psteps c fm fc ft evs.
Proof. exact src_psteps_eq. Qed.

(* ---- source tie: the storage gate as cptvfilerecorder.go computes it now ----
   CheckCanRecord fails iff statfs fails or the space AVAILABLE to the daemon, f_bavail * f_bsize in whole MiB
   (truncating), is below min-disk-space-mb. *)
Theorem C04_source_disk_gate : forall r w,
    0 <= fw_bavail w -> 0 <= fw_bsize w < 2 ^ 64 ->
    CPTVFileRecorder_CheckCanRecord fext r w =
      Ok (r, if fw_statfs_err w then 1
             else if Z.quot (Z.quot (fw_bavail w * fw_bsize w) 1024) 1024 >=? CPTVFileRecorder_minDiskSpace r then 0 else 1) w.
Proof. exact tie_CheckCanRecord. Qed.
