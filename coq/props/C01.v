(* Property C01 - each motion recording is a gap-free, duplicate-free, in-order run of the
   stream; recordings tile.  Only property theorems, non-vacuity examples, Print Assumptions. *)
From Coq Require Import List ZArith Bool.
From TR Require Import model.Ring model.Processor model.ProcAbs model.ProcSpec proofs.ProcS0102.
(* constants and wiring read from the Go sources on every run *)
From TR Require Import model.ProcExt proofs.TieProcCorollaries.
From TR Require Import proofs.FactsRing proofs.FactsProc.
Import ListNotations.
Open Scope Z_scope.

(* For every event list over {accepted frame (any motion bit, any window state), bad frame,
   reset, test-recording request} with frames numbered 0,1,2,..., every ring capacity >= 1,
   every min/max/trigger setting, every placement of refused starts (window closed, disk check
   failed, file creation failed) and stop failures - i.e. every fault script in whose run no
   WRITE on the motion sink fails:
   S01: inside a recording the ids handed to the motion sink increase by exactly 1, and the
        first id of every recording is greater than every id written before (no frame in two
        recordings, none skipped or repeated inside one);
   S02: a recording started at frame t receives exactly the ids max (t-(size-1)) (E+1) .. t
        (E = last id written before, -1 if none) - so when t - (E+1) <= size-1 it begins
        exactly at E+1 and back-to-back recordings tile the stream. *)
Theorem C01_all_streams : forall c fm fc ft evs,
    1 <= p_size c -> wf_ids 0 evs ->
    let tr := psteps c fm fc ft evs in
    nowf tr = true ->
    S01 tr = true /\ S02 c tr = true.
Proof. exact S01_S02_hold. Qed.

(* non-vacuity: capacity 3, trigger 1, min 2, max 4 frames; motion at frames 2 and 6:
   two recordings; the second re-triggers within pre-trigger reach and tiles. *)
Definition ex_cfg := mkCfg 3 2 4 1 false.
Definition ex_evs := [EFrame 0 false true; EFrame 1 false true; EFrame 2 true true; EFrame 3 false true;
                      EFrame 4 false true; EFrame 5 false true; EFrame 6 true true; EFrame 7 false true].
Example C01_ex :
  writes_of SMotion (flat_map snd (psteps ex_cfg [] [] [] ex_evs)) = [0; 1; 2; 3; 4; 5; 6; 7] /\
  nowf (psteps ex_cfg [] [] [] ex_evs) = true /\
  map (has_start_ok SMotion) (map snd (psteps ex_cfg [] [] [] ex_evs)) =
    [false; false; true; false; false; false; true; false].
Proof. vm_compute. auto. Qed.

(* ---- source tie: motion/motionprocessor.go and motion/frameloop.go as they are in /repo now ----
   coq/translated/MotionProcessor.v and FrameLoop.v are regenerated from the Go sources on every run;
   model/ProcExt.v gives the calls that leave them (frame parser, detector verdict, recording window,
   the three sinks with their fault scripts, listener, log, mutex) the meaning the model assumes.
   For every configuration with ring capacity >= 1, every event list (valid / bad frames, resets,
   test-recording requests) and every fault script, the translated Process / Reset produce exactly the
   calls and callbacks of the model: the steps the theorems above speak about ARE the steps of the
   translated source.  A change to motionprocessor.go or frameloop.go that alters what the processor
   does on some history breaks this theorem, whether or not a generated input reaches that history. *)
Theorem C01_source_tie : forall c fm fc ft evs,
    1 <= p_size c ->
    src_psteps c fm fc ft evs = psteps c fm fc ft evs.
Proof. exact src_psteps_eq. Qed.
