(* Property C16 - snapshots taken concurrently with processing are whole frames; no data races.
   Proof on an interleaving model (model/Concurrent.v) - partial: Go memory-model effects beyond
   sequential consistency and scheduler fairness are outside it.  The data-race clause is a finite
   access table decided by vm_compute and compared with the Go race detector's reports. *)
From Coq Require Import String.
From Coq Require Import List ZArith Bool Arith.
From TR Require Import model.GoSem model.Socket model.ConnExt translated.ConnLoop proofs.TieConn proofs.TieConnCorollaries.
From TR Require Import model.Concurrent proofs.ConcurrentProofs model.GoSem model.Ring translated.FrameLoop proofs.TieRing.
(* constants and wiring read from the Go sources on every run *)
From TR Require Import proofs.FactsRing.
Import ListNotations.
Open Scope Z_scope.

(* For every interleaving of the frame loop and a requester, every ring capacity >= 2 and every
   frame size: a snapshot requested after at least one frame has been processed is, pixel for
   pixel, ONE whole frame j - never a mixture - with
     (frames completed when the request was made) <= j <= (frames completed when it returned). *)
Theorem C16_whole_frame : forall size npix sched a b r,
    2 <= size -> (1 <= npix)%nat ->
    cs_rpc (crun (cs_init size npix) sched) = RDone a b r ->
    1 <= a ->
    exists j, a <= j <= b /\ r = repeat j npix.
Proof. exact whole_frame. Qed.

(* a request never corrupts the pipeline: the frame loop's state is what it reaches alone ... *)
Theorem C16_loop_unaffected : forall size npix sched,
    1 <= size -> (1 <= npix)%nat ->
    let s := crun (cs_init size npix) sched in
    exists n, loop_view s = loop_view (loop_only (cs_init size npix) n).
Proof. exact loop_unaffected. Qed.

(* ... nor stalls it: the requester holds the ring mutex for one bounded copy *)
Theorem C16_requester_releases : forall s a idx acc,
    cs_rpc s = RCopy a idx 0 acc -> cs_lock s = Some TReq -> (1 <= cs_npix s)%nat ->
    cs_lock (crun s (repeat TReq (S (cs_npix s)))) = None.
Proof. exact requester_releases. Qed.

(* KNOWN FINDINGS as refutations of the unguarded statements *)
Theorem C16_size1_refuted :
  exists sched a b r,
    cs_rpc (crun (cs_init 1 2) sched) = RDone a b r /\ 1 <= a /\ ~ exists j, r = repeat j 2.
Proof. exact whole_frame_size1_refuted. Qed.

Theorem C16_early_request_blank :
  exists sched b r, cs_rpc (crun (cs_init 3 2) sched) = RDone 0 b r /\ r = [0; 0].
Proof. exact early_request_blank. Qed.

(* data-race clause over the access table: exactly CurrentFrame (2), StartSnapshot (3),
   processor (4), headerInfo (5) are racy - known findings; the ring index and slots are not *)
Theorem C16_racy_variables : racy_vars = [2; 3; 4; 5]%nat.
Proof. exact racy_variables. Qed.

(* ---- source tie: the locking discipline the interleaving model assumes, read off
   motion/frameloop.go as it is in /repo now (coq/translated/FrameLoop.v, regenerated on every run).
   For every well-formed loop and every meaning [ext] of the calls that leave the translated code:
   CopyRecent performs exactly  mu.Lock; CreateCopy of the slot BEFORE the current one; mu.Unlock,
   in this order, and changes nothing in the loop; Move advances the index between mu.Lock and
   mu.Unlock.  (The model's requester copies slot (cur-1+size) mod size with the lock held; its
   frame loop moves the index with the lock held.)  Dropping a lock, copying another slot or
   copying outside the critical section breaks these theorems. *)
Theorem C16_source_CopyRecent_locked : forall (W : Type) (ext : string -> list arg -> W -> Z * W) fl w d,
    fl_wf fl ->
    let w1 := after_ext ext "FrameLoop.mu.Lock" [] w in
    let rw := ext "Frame.CreateCopy"%string [AFrame (recent d (ring_of fl))] w1 in
    FrameLoop_CopyRecent ext fl w = Ok (fl, fst rw) (after_ext ext "FrameLoop.mu.Unlock" [] (snd rw)).
Proof. exact @tie_CopyRecent. Qed.

Theorem C16_source_Move_locked : forall (W : Type) (ext : string -> list arg -> W -> Z * W) fl w d,
    fl_wf fl ->
    exists fl', FrameLoop_Move ext fl w =
                  Ok (fl', current d (ring_of fl'))
                     (after_ext ext "FrameLoop.mu.Unlock" [] (after_ext ext "FrameLoop.mu.Lock" [] w)) /\
                ring_of fl' = move (ring_of fl) /\
                FrameLoop_orderedFrames fl' = FrameLoop_orderedFrames fl /\ fl_wf fl'.
Proof. exact @tie_Move. Qed.

(* ---- source tie: the wiring, as cmd/thermal-recorder/main.go builds it now ----
   coq/translated/ConnLoop.v is handleConn regenerated from the Go source on every run; proofs/TieConn.v proves the
   log it produces for every connection (header, any stream, any script of Process results), and the wiring part of
   that log has the shape below: ONE processor, given the parser frameParser chose; as motion recorder the file
   recorder whose Stop is deferred, wrapped by the throttle exactly when it is activated; a continuous recorder of
   its own exactly when configured; and for test recordings a plain file recorder of its own - not shared with the
   motion or the continuous recorder, never throttled. *)
Theorem C16_source_handleConn : forall cfg cs script i1 i2 fuel text rest h,
  header_c (S (total_len cs)) cs [] = Some (text, rest) ->
  c_decode cfg text = Some h ->
  parser_of (h_brand h) (h_model h) <> 0 ->
  5 <= h_fs h -> h_fps h <> 0 -> i1 <> 0 -> i2 <> 0 ->
  (total_len rest < fuel)%nat ->
  post (src_conn cfg fuel (conn_init cs script i1 i2))
    (fun r w' =>
       r = Some (end_err (S (total_len rest)) (Z.to_nat (h_fs h)) rest) /\ cw_in w' = [] /\
       cw_log w' = prelude_log cfg (parser_of (h_brand h) (h_model h)) ++
                   loop_log (proc_tok cfg) (frames_c (S (total_len rest)) (Z.to_nat (h_fs h)) rest) script ++
                   [EStop REC_TOK]).
Proof. exact tie_handleConn. Qed.

Theorem C16_source_wiring : forall cfg parser,
  let l := prelude_log cfg parser in
  exists rec const snap tok,
    filter (fun e => match e with ENewProcessor _ _ _ _ _ => true | _ => false end) l =
      [ENewProcessor parser rec const snap tok] /\
    In (ENewRecorder snap) l /\ snap <> REC_TOK /\ snap <> rec /\ snap <> const /\
    ~ In (ESetConstant snap) l /\ (forall m t, ~ In (ENewThrottle snap m t) l) /\
    (if c_throttle cfg then In (ENewThrottle REC_TOK (c_minsecs cfg + c_preview cfg) rec) l else rec = REC_TOK) /\
    (if c_const cfg then In (ENewRecorder const) l /\ In (ESetConstant const) l /\ const <> REC_TOK /\ const <> rec
     else const = 0) /\
    hd_error l = Some (EAutoFFC true).
Proof. exact wiring_facts. Qed.

(* ---- source tie: the snapshot request path, as cmd/thermal-recorder/snapshot.go and service.go are now ----
   coq/translated/Snapshot.v is newSnapshot, newSnapshotRecording and the service methods TakeSnapshot,
   TakeTestRecording, CameraInfo regenerated from the Go source on every run (translate/request.go);
   snapshotRecordingTriggers (a timer loop sleeping for hours) is the one function of snapshot.go left outside, and is
   listed as such.  model/SnapExt.v gives the calls that leave the translation their meaning: a clock script, the
   package variables previousSnapshotTime / processor (nil or an object with CurrentFrame, the frame
   GetRecentFrame hands out, StartSnapshot) / headerInfo, Status.FrameCount by frame handle, and a log of every
   mutex operation and every access to that state.  proofs/TieSnap.v proves, for EVERY state of that world and
   every lastFrame (no side condition - the Go code forces none): *)
From TR Require Import translated.Snapshot model.SnapExt proofs.TieSnap.

Theorem C16_source_snapshot_translated :
  untranslated_Snapshot = ["Snapshot_fn_snapshotRecordingTriggers"%string] /\ ext_names_Snapshot = sext_names.
Proof. exact (conj snapshot_untranslated snapshot_ext_names_known). Qed.

(* newSnapshot never panics; its result, the world it leaves and what it adds to the log are the hand-written
   description [snap_ret] / [snap_world] (previousSnapshotTime, processor, headerInfo unchanged; the log grows by
   [snap_log]), decided by the five cases of [snap_case] *)
Theorem C16_source_snapshot_tie : forall lastFrame w,
  src_newSnapshot lastFrame w = Ok (snap_ret lastFrame w) (snap_world lastFrame w).
Proof. exact tie_newSnapshot. Qed.

(* locking: on every path - the four early returns included - newSnapshot (and TakeSnapshot around it) adds to the
   log  Lock :: accesses ++ [Unlock]:  one Lock, before anything is touched, one Unlock, last, no nil dereference *)
Theorem C16_source_snapshot_locked : forall lastFrame w,
  (exists r w', src_newSnapshot lastFrame w = Ok r w' /\ disciplined (log_since w w') = true) /\
  (exists r w', src_TakeSnapshot lastFrame w = Ok r w' /\ disciplined (log_since w w') = true).
Proof. exact (fun lf w => conj (newSnapshot_locked lf w) (TakeSnapshot_locked lf w)). Qed.

(* (nil, nil) exactly inside the quiet period: time.Since(previousSnapshotTime) < 500 ms at the clock reading taken *)
Theorem C16_source_snapshot_quiet_iff : forall lastFrame w,
  snap_ret lastFrame w = (NIL_FRAME, 0) <-> go_time_sub (hd 0 (sw_clock w)) (sw_prev w) < 500000000.
Proof. exact snap_nil_nil_iff. Qed.

(* FINDING (not a violation of C16): nothing ever assigns previousSnapshotTime - no entry point of the translated
   unit changes it, "set:previousSnapshotTime" is not among the calls the unit makes, no other file of the
   repository names it.  It stays Go's zero time; for every clock reading from 500 ms after 0001-01-01 on the quiet
   period does not apply: (nil, nil) is never returned, snapshot requests are not rate-limited at all. *)
Theorem C16_source_snapshot_quiet_period_dead :
  (forall lf w, sw_prev (snap_world lf w) = sw_prev w) /\
  (forall w, sw_prev (rec_world w) = sw_prev w) /\
  (forall w, sw_prev (ci_world w) = sw_prev w) /\
  existsb (String.eqb "set:previousSnapshotTime") ext_names_Snapshot = false /\
  (forall lf w, sw_prev w = 0 -> 500000000 <= hd 0 (sw_clock w) -> snap_case lf w <> SQuiet /\ snap_ret lf w <> (NIL_FRAME, 0)).
Proof. exact snapshot_quiet_period_dead. Qed.

(* the error before the first connection *)
Theorem C16_source_snapshot_not_started_iff : forall lastFrame w,
  snap_case lastFrame w = SNotStarted <-> 500000000 <= go_time_sub (hd 0 (sw_clock w)) (sw_prev w) /\ sw_proc w = None.
Proof. exact snap_case_not_started. Qed.

(* "no new frames yet" iff lastFrame >= 0 and uint32(lastFrame) == CurrentFrame - stated exactly: lastFrame is a
   64-bit int, the conversion keeps its low 32 bits, so lastFrame = CurrentFrame + k * 2^32 is answered the same
   way (snap_ex_no_new_wrapped); a negative lastFrame never is, not even -1 against CurrentFrame = 2^32 - 1 *)
Theorem C16_source_snapshot_no_new_iff : forall lastFrame w,
  snap_case lastFrame w = SNoNew <->
  500000000 <= go_time_sub (hd 0 (sw_clock w)) (sw_prev w) /\
  exists p, sw_proc w = Some p /\ 0 <= lastFrame /\ lastFrame mod 2 ^ 32 = po_cur p mod 2 ^ 32.
Proof. exact snap_case_no_new. Qed.

(* otherwise the processor's recent frame (or "no frames yet" when that is nil), its FrameCount filled in with
   CurrentFrame only if it was 0 *)
Theorem C16_source_snapshot_frame_iff : forall lastFrame w h c,
  snap_case lastFrame w = SFrame h c <->
  500000000 <= go_time_sub (hd 0 (sw_clock w)) (sw_prev w) /\
  exists p, sw_proc w = Some p /\ ~ (0 <= lastFrame /\ lastFrame mod 2 ^ 32 = po_cur p mod 2 ^ 32) /\
     h = po_recent p /\ h <> NIL_FRAME /\
     c = (if fc_get (sw_fc w) h =? 0 then po_cur p mod 2 ^ 32 else fc_get (sw_fc w) h).
Proof. exact snap_case_frame. Qed.

(* what is returned in each case, read off the final world *)
Theorem C16_source_snapshot_result : forall lastFrame w,
  let r := snap_ret lastFrame w in let w' := snap_world lastFrame w in
  match snap_case lastFrame w with
  | SQuiet => r = (NIL_FRAME, 0)
  | SFrame h c => r = (h, 0) /\ h <> NIL_FRAME /\ fc_get (sw_fc w') h = c /\
                  (forall h', h' <> h -> fc_get (sw_fc w') h' = fc_get (sw_fc w) h')
  | other => fst r = NIL_FRAME /\ snd r <> 0 /\ err_msg w' (snd r) = snap_msg other
  end.
Proof. exact snap_result. Qed.

(* TakeSnapshot maps the result as written: the frame (or nil, nil) when there is no error, else
   (nil, &dbus.Error{Name: "org.cacophony.thermalrecorder.TakeSnapshot", Body: [err.Error()]}) *)
Theorem C16_source_snapshot_service : forall lastFrame w,
  src_TakeSnapshot lastFrame w = Ok (fst (ts_out lastFrame w)) (snd (ts_out lastFrame w)) /\
  let r := fst (ts_out lastFrame w) in let w' := snd (ts_out lastFrame w) in
  match snap_case lastFrame w with
  | SQuiet => r = (NIL_FRAME, 0)
  | SFrame h c => r = (h, 0) /\ fc_get (sw_fc w') h = c
  | other => fst r = NIL_FRAME /\
             exists m, snap_msg other = Some m /\ dbus_of w' (snd r) = Some (NAME_TAKE_SNAPSHOT, Some [m])
  end.
Proof. exact (fun lf w => conj (tie_TakeSnapshot lf w) (TakeSnapshot_result lf w)). Qed.

(* CameraInfo: (nil, &dbus.Error{"...NoHeaderInfo", nil}) before the first header, else the map of the eight
   header values under the keys of headers/headers.go ... *)
Theorem C16_source_snapshot_camerainfo : forall w,
  src_CameraInfo w = Ok (ci_ret w) (ci_world w) /\
  match sw_hdr w with
  | None => fst (ci_ret w) = 0 /\ dbus_of (ci_world w) (snd (ci_ret w)) = Some (NAME_NO_HEADER, None)
  | Some h => snd (ci_ret w) = 0 /\
              exists kvs, svget (ci_world w) (fst (ci_ret w)) = VMap kvs /\ map (entry_of (ci_world w)) kvs = camera_specs h
  end.
Proof. exact (fun w => conj (tie_CameraInfo w) (CameraInfo_result w)). Qed.

(* ... read WITHOUT any lock (KNOWN FINDING race-var=headerInfo, here read off the source: nine reads of
   headerInfo, no mutex operation) *)
Theorem C16_source_snapshot_camerainfo_unlocked : forall w,
  exists r w', src_CameraInfo w = Ok r w' /\
    existsb is_lock (log_since w w') = false /\
    forallb (fun e => match e with ERead SHeaderInfo => true | _ => false end) (log_since w w') = true /\
    log_since w w' <> [] /\ disciplined (log_since w w') = false.
Proof. exact CameraInfo_takes_no_lock. Qed.

(* the handler's clause for processor.GetRecentFrame is what the translated method computes: CurrentFrame and
   CopyRecent's copy, made under the ring's own mutex, of the slot before the current one *)
Theorem C16_source_snapshot_GetRecentFrame : forall (W : Type) (ext : string -> list arg -> W -> Z * W) mp w d,
  fl_wf (MotionProcessor.MotionProcessor_frameLoop mp) ->
  let w1 := after_ext ext "FrameLoop.mu.Lock" [] w in
  let rw := ext "Frame.CreateCopy"%string [AFrame (recent d (ring_of (MotionProcessor.MotionProcessor_frameLoop mp)))] w1 in
  MotionProcessor.MotionProcessor_GetRecentFrame ext mp w =
    Ok (mp, (MotionProcessor.MotionProcessor_CurrentFrame mp, fst rw)) (after_ext ext "FrameLoop.mu.Unlock" [] (snd rw)).
Proof. exact tie_GetRecentFrame. Qed.
