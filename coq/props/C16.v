(* placeholder replaced when the interleaving proofs are integrated *)
