(* Property C16 - snapshots taken concurrently with processing are whole frames; no data races.
   Proof on an interleaving model (model/Concurrent.v) - partial: Go memory-model effects beyond
   sequential consistency and scheduler fairness are outside it.  The data-race clause is a finite
   access table decided by vm_compute and compared with the Go race detector's reports. *)
From Coq Require Import String.
From Coq Require Import List ZArith Bool Arith.
From TR Require Import model.GoSem model.Socket model.ConnExt translated.ConnLoop proofs.TieConn proofs.TieConnCorollaries.
From TR Require Import model.Concurrent proofs.ConcurrentProofs model.GoSem model.Ring translated.FrameLoop proofs.TieRing.
(* constants and wiring read from the Go sources on every run *)
From TR Require Import proofs.FactsRing.
Import ListNotations.
Open Scope Z_scope.

(* For every interleaving of the frame loop and a requester, every ring capacity >= 2 and every
   frame size: a snapshot requested after at least one frame has been processed is, pixel for
   pixel, ONE whole frame j - never a mixture - with
     (frames completed when the request was made) <= j <= (frames completed when it returned). *)
Theorem C16_whole_frame : forall size npix sched a b r,
    2 <= size -> (1 <= npix)%nat ->
    cs_rpc (crun (cs_init size npix) sched) = RDone a b r ->
    1 <= a ->
    exists j, a <= j <= b /\ r = repeat j npix.
Proof. exact whole_frame. Qed.

(* a request never corrupts the pipeline: the frame loop's state is what it reaches alone ... *)
Theorem C16_loop_unaffected : forall size npix sched,
    1 <= size -> (1 <= npix)%nat ->
    let s := crun (cs_init size npix) sched in
    exists n, loop_view s = loop_view (loop_only (cs_init size npix) n).
Proof. exact loop_unaffected. Qed.

(* ... nor stalls it: the requester holds the ring mutex for one bounded copy *)
Theorem C16_requester_releases : forall s a idx acc,
    cs_rpc s = RCopy a idx 0 acc -> cs_lock s = Some TReq -> (1 <= cs_npix s)%nat ->
    cs_lock (crun s (repeat TReq (S (cs_npix s)))) = None.
Proof. exact requester_releases. Qed.

(* KNOWN FINDINGS as refutations of the unguarded statements *)
Theorem C16_size1_refuted :
  exists sched a b r,
    cs_rpc (crun (cs_init 1 2) sched) = RDone a b r /\ 1 <= a /\ ~ exists j, r = repeat j 2.
Proof. exact whole_frame_size1_refuted. Qed.

Theorem C16_early_request_blank :
  exists sched b r, cs_rpc (crun (cs_init 3 2) sched) = RDone 0 b r /\ r = [0; 0].
Proof. exact early_request_blank. Qed.

(* data-race clause over the access table: exactly CurrentFrame (2), StartSnapshot (3),
   processor (4), headerInfo (5) are racy - known findings; the ring index and slots are not *)
Theorem C16_racy_variables : racy_vars = [2; 3; 4; 5]%nat.
Proof. exact racy_variables. Qed.

(* ---- source tie: the locking discipline the interleaving model assumes, read off
   motion/frameloop.go as it is in /repo now (coq/translated/FrameLoop.v, regenerated on every run).
   For every well-formed loop and every meaning [ext] of the calls that leave the translated code:
   CopyRecent performs exactly  mu.Lock; CreateCopy of the slot BEFORE the current one; mu.Unlock,
   in this order, and changes nothing in the loop; Move advances the index between mu.Lock and
   mu.Unlock.  (The model's requester copies slot (cur-1+size) mod size with the lock held; its
   frame loop moves the index with the lock held.)  Dropping a lock, copying another slot or
   copying outside the critical section breaks these theorems. *)
Theorem C16_source_CopyRecent_locked : forall (W : Type) (ext : string -> list arg -> W -> Z * W) fl w d,
    fl_wf fl ->
    let w1 := after_ext ext "FrameLoop.mu.Lock" [] w in
    let rw := ext "Frame.CreateCopy"%string [AFrame (recent d (ring_of fl))] w1 in
    FrameLoop_CopyRecent ext fl w = Ok (fl, fst rw) (after_ext ext "FrameLoop.mu.Unlock" [] (snd rw)).
Proof. exact @tie_CopyRecent. Qed.

Theorem C16_source_Move_locked : forall (W : Type) (ext : string -> list arg -> W -> Z * W) fl w d,
    fl_wf fl ->
    exists fl', FrameLoop_Move ext fl w =
                  Ok (fl', current d (ring_of fl'))
                     (after_ext ext "FrameLoop.mu.Unlock" [] (after_ext ext "FrameLoop.mu.Lock" [] w)) /\
                ring_of fl' = move (ring_of fl) /\
                FrameLoop_orderedFrames fl' = FrameLoop_orderedFrames fl /\ fl_wf fl'.
Proof. exact @tie_Move. Qed.

(* ---- source tie: the wiring, as cmd/thermal-recorder/main.go builds it now ----
   coq/translated/ConnLoop.v is handleConn regenerated from the Go source on every run; proofs/TieConn.v proves the
   log it produces for every connection (header, any stream, any script of Process results), and the wiring part of
   that log has the shape below: ONE processor, given the parser frameParser chose; as motion recorder the file
   recorder whose Stop is deferred, wrapped by the throttle exactly when it is activated; a continuous recorder of
   its own exactly when configured; and for test recordings a plain file recorder of its own - not shared with the
   motion or the continuous recorder, never throttled. *)
Theorem C16_source_handleConn : forall cfg cs script i1 i2 fuel text rest h,
  header_c (S (total_len cs)) cs [] = Some (text, rest) ->
  c_decode cfg text = Some h ->
  parser_of (h_brand h) (h_model h) <> 0 ->
  5 <= h_fs h -> h_fps h <> 0 -> i1 <> 0 -> i2 <> 0 ->
  (total_len rest < fuel)%nat ->
  post (src_conn cfg fuel (conn_init cs script i1 i2))
    (fun r w' =>
       r = Some (end_err (S (total_len rest)) (Z.to_nat (h_fs h)) rest) /\ cw_in w' = [] /\
       cw_log w' = prelude_log cfg (parser_of (h_brand h) (h_model h)) ++
                   loop_log (proc_tok cfg) (frames_c (S (total_len rest)) (Z.to_nat (h_fs h)) rest) script ++
                   [EStop REC_TOK]).
Proof. exact tie_handleConn. Qed.

Theorem C16_source_wiring : forall cfg parser,
  let l := prelude_log cfg parser in
  exists rec const snap tok,
    filter (fun e => match e with ENewProcessor _ _ _ _ _ => true | _ => false end) l =
      [ENewProcessor parser rec const snap tok] /\
    In (ENewRecorder snap) l /\ snap <> REC_TOK /\ snap <> rec /\ snap <> const /\
    ~ In (ESetConstant snap) l /\ (forall m t, ~ In (ENewThrottle snap m t) l) /\
    (if c_throttle cfg then In (ENewThrottle REC_TOK (c_minsecs cfg + c_preview cfg) rec) l else rec = REC_TOK) /\
    (if c_const cfg then In (ENewRecorder const) l /\ In (ESetConstant const) l /\ const <> REC_TOK /\ const <> rec
     else const = 0) /\
    hd_error l = Some (EAutoFFC true).
Proof. exact wiring_facts. Qed.
