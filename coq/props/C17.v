(* Property C17 - the continuous recorder tiles the stream; a test recording is 21 consecutive
   frames. *)
From Coq Require Import List ZArith Bool String.
From TR Require Import model.Ring model.Processor model.ProcAbs model.ProcSpec proofs.ProcS1217.
(* constants and wiring read from the Go sources on every run *)
From TR Require Import model.ProcExt proofs.TieProcCorollaries.
From TR Require Import proofs.FactsProc.
Import ListNotations.
Open Scope Z_scope.

(* With the continuous recorder enabled and its sink fault-free, for every event list (any
   motion bits, window states, resets, requests, bad frames): every accepted frame is written
   exactly once, in its own step and in order; a file is opened when none is open and closed
   exactly with its (maxFrames+1)-th frame (or by a bad frame). *)
Theorem C17_continuous_tiles : forall c fm fc ft evs,
    forallb negb fc = true -> 0 <= p_max c ->
    S17c c (psteps c fm fc ft evs) = true.
Proof. exact S17c_holds. Qed.

(* ... independently of motion, recording window, resets, test-recording requests and the
   other sinks' failures: erasing all of these leaves the continuous sink's calls unchanged
   (the throttle wraps only the motion recorder - main.go's wiring, checked end to end by C11) *)
Theorem C17_continuous_independent : forall c fm fm' fc ft ft' evs,
    flat_map const_outs (prun c (pinit c fm fc ft) evs) =
    flat_map const_outs (prun c (pinit c fm' fc ft') (filter keep_for_const (map erase_bits evs))).
Proof. exact const_independent. Qed.

(* A test-recording request yields Start; exactly TEST_FRAMES = 21 consecutive frames beginning
   with the next accepted frame; Stop with the 21st (fault-free test sink; a request arriving
   while one is open is dropped). *)
Theorem C17_test_recording_21 : forall c fm fc ft evs,
    forallb negb ft = true ->
    S17t (psteps c fm fc ft evs) = true.
Proof. exact S17t_holds. Qed.

(* the literal in `mp.snapshotFrames > 20` as the Go source has it now *)
Theorem C17_test_frames_constant : TEST_FRAMES = Extracted.snapshot_frames_limit + 1 /\ Extracted.snapshot_frames_op = ">"%string.
Proof. split; reflexivity. Qed.

(* ... without disturbing the motion recorder: its calls and listener callbacks are identical
   with and without the requests. *)
Theorem C17_motion_undisturbed : forall c fm fc fc' ft ft' evs,
    flat_map motion_outs (prun c (pinit c fm fc ft) evs) =
    flat_map motion_outs (prun c (pinit c fm fc' ft') (filter not_snapreq evs)).
Proof. exact motion_undisturbed. Qed.

(* non-vacuity: max 2 frames -> continuous files of 3 frames; a request before frame 1 *)
Definition ex_cfg := mkCfg 1 1 2 1 true.
Definition ex_evs := ESnapReq :: map (fun i => EFrame (Z.of_nat i) false true) (seq 0 23).
Example C17_ex :
  writes_of STest (flat_map snd (psteps ex_cfg [] [] [] ex_evs)) = map Z.of_nat (seq 0 21) /\
  map (fun o => List.length (const_outs o)) (map snd (psteps ex_cfg [] [] [] ex_evs)) =
    [0; 2; 1; 2; 2; 1; 2; 2; 1; 2; 2; 1; 2; 2; 1; 2; 2; 1; 2; 2; 1; 2; 2; 1]%nat.
Proof. vm_compute. auto. Qed.

(* ---- source tie: motion/motionprocessor.go and motion/frameloop.go as they are in /repo now ----
   coq/translated/MotionProcessor.v and FrameLoop.v are regenerated from the Go sources on every run;
   model/ProcExt.v gives the calls that leave them (frame parser, detector verdict, recording window,
   the three sinks with their fault scripts, listener, log, mutex) the meaning the model assumes.
   For every configuration with ring capacity >= 1, every event list (valid / bad frames, resets,
   test-recording requests) and every fault script, the translated Process / Reset produce exactly the
   calls and callbacks of the model: the steps the theorems above speak about ARE the steps of the
   translated source.  A change to motionprocessor.go or frameloop.go that alters what the processor
   does on some history breaks this theorem, whether or not a generated input reaches that history. *)
Theorem C17_source_tie : forall c fm fc ft evs,
    1 <= p_size c ->
    src_psteps c fm fc ft evs = psteps c fm fc ft evs.
Proof. exact src_psteps_eq. Qed.
