(* Property C17 - the continuous recorder tiles the stream; a test recording is 21 consecutive
   frames. *)
From Coq Require Import List ZArith Bool String.
From TR Require Import model.GoSem model.Socket model.ConnExt translated.ConnLoop proofs.TieConn proofs.TieConnCorollaries.
From TR Require Import model.Ring model.Processor model.ProcAbs model.ProcSpec proofs.ProcS1217.
(* constants and wiring read from the Go sources on every run *)
From TR Require Import model.ProcExt proofs.TieProcCorollaries.
From TR Require Import proofs.FactsProc.
Import ListNotations.
Open Scope Z_scope.

(* With the continuous recorder enabled and its sink fault-free, for every event list (any
   motion bits, window states, resets, requests, bad frames): every accepted frame is written
   exactly once, in its own step and in order; a file is opened when none is open and closed
   exactly with its (maxFrames+1)-th frame (or by a bad frame). *)
Theorem C17_continuous_tiles : forall c fm fc ft evs,
    forallb negb fc = true -> 0 <= p_max c ->
    S17c c (psteps c fm fc ft evs) = true.
Proof. exact S17c_holds. Qed.

(* ... independently of motion, recording window, resets, test-recording requests and the
   other sinks' failures: erasing all of these leaves the continuous sink's calls unchanged
   (the throttle wraps only the motion recorder - main.go's wiring, checked end to end by C11) *)
Theorem C17_continuous_independent : forall c fm fm' fc ft ft' evs,
    flat_map const_outs (prun c (pinit c fm fc ft) evs) =
    flat_map const_outs (prun c (pinit c fm' fc ft') (filter keep_for_const (map erase_bits evs))).
Proof. exact const_independent. Qed.

(* A test-recording request yields Start; exactly TEST_FRAMES = 21 consecutive frames beginning
   with the next accepted frame; Stop with the 21st (fault-free test sink; a request arriving
   while one is open is dropped). *)
Theorem C17_test_recording_21 : forall c fm fc ft evs,
    forallb negb ft = true ->
    S17t (psteps c fm fc ft evs) = true.
Proof. exact S17t_holds. Qed.

(* the literal in `mp.snapshotFrames > 20` as the Go source has it now *)
Theorem C17_test_frames_constant : TEST_FRAMES = Extracted.snapshot_frames_limit + 1 /\ Extracted.snapshot_frames_op = ">"%string.
Proof. split; reflexivity. Qed.

(* ... without disturbing the motion recorder: its calls and listener callbacks are identical
   with and without the requests. *)
Theorem C17_motion_undisturbed : forall c fm fc fc' ft ft' evs,
    flat_map motion_outs (prun c (pinit c fm fc ft) evs) =
    flat_map motion_outs (prun c (pinit c fm fc' ft') (filter not_snapreq evs)).
Proof. exact motion_undisturbed. Qed.

(* non-vacuity: max 2 frames -> continuous files of 3 frames; a request before frame 1 *)
Definition ex_cfg := mkCfg 1 1 2 1 true.
Definition ex_evs := ESnapReq :: map (fun i => EFrame (Z.of_nat i) false true) (seq 0 23).
Example C17_ex :
  writes_of STest (flat_map snd (psteps ex_cfg [] [] [] ex_evs)) = map Z.of_nat (seq 0 21) /\
  map (fun o => List.length (const_outs o)) (map snd (psteps ex_cfg [] [] [] ex_evs)) =
    [0; 2; 1; 2; 2; 1; 2; 2; 1; 2; 2; 1; 2; 2; 1; 2; 2; 1; 2; 2; 1; 2; 2; 1]%nat.
Proof. vm_compute. auto. Qed.

(* ---- source tie: motion/motionprocessor.go and motion/frameloop.go as they are in /repo now ----
   coq/translated/MotionProcessor.v and FrameLoop.v are regenerated from the Go sources on every run;
   model/ProcExt.v gives the calls that leave them (frame parser, detector verdict, recording window,
   the three sinks with their fault scripts, listener, log, mutex) the meaning the model assumes.
   For every configuration with ring capacity >= 1, every event list (valid / bad frames, resets,
   test-recording requests) and every fault script, the translated Process / Reset produce exactly the
   calls and callbacks of the model: the steps the theorems above speak about ARE the steps of the
   translated source.  A change to motionprocessor.go or frameloop.go that alters what the processor
   does on some history breaks this theorem, whether or not a generated input reaches that history. *)
Theorem C17_source_tie : forall c fm fc ft evs,
    1 <= p_size c ->
    src_psteps c fm fc ft evs = psteps c fm fc ft evs.
Proof. exact src_psteps_eq. Qed.

(* ---- source tie: the wiring, as cmd/thermal-recorder/main.go builds it now ----
   coq/translated/ConnLoop.v is handleConn regenerated from the Go source on every run; proofs/TieConn.v proves the
   log it produces for every connection (header, any stream, any script of Process results), and the wiring part of
   that log has the shape below: ONE processor, given the parser frameParser chose; as motion recorder the file
   recorder whose Stop is deferred, wrapped by the throttle exactly when it is activated; a continuous recorder of
   its own exactly when configured; and for test recordings a plain file recorder of its own - not shared with the
   motion or the continuous recorder, never throttled. *)
Theorem C17_source_handleConn : forall cfg cs script i1 i2 fuel text rest h,
  header_c (S (total_len cs)) cs [] = Some (text, rest) ->
  c_decode cfg text = Some h ->
  parser_of (h_brand h) (h_model h) <> 0 ->
  5 <= h_fs h -> h_fps h <> 0 -> i1 <> 0 -> i2 <> 0 ->
  (total_len rest < fuel)%nat ->
  post (src_conn cfg fuel (conn_init cs script i1 i2))
    (fun r w' =>
       r = Some (end_err (S (total_len rest)) (Z.to_nat (h_fs h)) rest) /\ cw_in w' = [] /\
       cw_log w' = prelude_log cfg (parser_of (h_brand h) (h_model h)) ++
                   loop_log (proc_tok cfg) (frames_c (S (total_len rest)) (Z.to_nat (h_fs h)) rest) script ++
                   [EStop REC_TOK]).
Proof. exact tie_handleConn. Qed.

Theorem C17_source_wiring : forall cfg parser,
  let l := prelude_log cfg parser in
  exists rec const snap tok,
    filter (fun e => match e with ENewProcessor _ _ _ _ _ => true | _ => false end) l =
      [ENewProcessor parser rec const snap tok] /\
    In (ENewRecorder snap) l /\ snap <> REC_TOK /\ snap <> rec /\ snap <> const /\
    ~ In (ESetConstant snap) l /\ (forall m t, ~ In (ENewThrottle snap m t) l) /\
    (if c_throttle cfg then In (ENewThrottle REC_TOK (c_minsecs cfg + c_preview cfg) rec) l else rec = REC_TOK) /\
    (if c_const cfg then In (ENewRecorder const) l /\ In (ESetConstant const) l /\ const <> REC_TOK /\ const <> rec
     else const = 0) /\
    hd_error l = Some (EAutoFFC true).
Proof. exact wiring_facts. Qed.

(* ---- source tie: the test-recording request, as cmd/thermal-recorder/snapshot.go and service.go are now ----
   coq/translated/Snapshot.v (regenerated on every run), model/SnapExt.v, proofs/TieSnap.v - see props/C16.v.
   For EVERY state of the modelled world (no side condition): *)
From TR Require Import translated.Snapshot model.SnapExt proofs.TieSnap.

(* newSnapshotRecording never panics; result, final world and added log are the hand-written description *)
Theorem C17_source_request_tie : forall w,
  src_newSnapshotRecording w = Ok (rec_ret w) (rec_world w).
Proof. exact tie_newSnapshotRecording. Qed.

(* an error iff there is no processor yet - "reading from camera has not started yet"; nothing is set then and only
   the variable processor is read *)
Theorem C17_source_request_error_iff : forall w,
  (rec_ret w <> 0 <-> sw_proc w = None) /\
  (sw_proc w = None -> err_msg (rec_world w) (rec_ret w) = Some MSG_NOT_STARTED /\ sw_proc (rec_world w) = None /\
                       filter is_shared (rec_log w) = [ERead SProcessor]).
Proof. exact request_error_iff. Qed.

(* otherwise nil, and StartSnapshot is written exactly once, with true - the only write of the request; CurrentFrame
   and the recent frame are untouched *)
Theorem C17_source_request_sets_flag_once : forall w p,
  sw_proc w = Some p ->
  rec_ret w = 0 /\
  sw_proc (rec_world w) = Some (mkProc (po_cur p) (po_recent p) true) /\
  List.length (filter (fun e => match e with EWrite SStartSnapshot => true | _ => false end) (rec_log w)) = 1%nat /\
  filter (fun e => match e with EWrite _ => true | _ => false end) (rec_log w) = [EWrite SStartSnapshot].
Proof. exact rec_sets_flag_once. Qed.

(* locking: Lock first, Unlock last, once each, on both paths - also seen from TakeTestRecording *)
Theorem C17_source_request_locked : forall w,
  (exists r w', src_newSnapshotRecording w = Ok r w' /\ disciplined (log_since w w') = true) /\
  (exists r w', src_TakeTestRecording w = Ok r w' /\ disciplined (log_since w w') = true).
Proof. exact (fun w => conj (newSnapshotRecording_locked w) (TakeTestRecording_locked w)). Qed.

(* TakeTestRecording maps the result as written: nil, or
   &dbus.Error{Name: "org.cacophony.thermalrecorder.TakeSnapshotRecording", Body: [err.Error()]} *)
Theorem C17_source_request_service : forall w,
  src_TakeTestRecording w = Ok (fst (tr_out w)) (snd (tr_out w)) /\
  match sw_proc w with
  | Some p => fst (tr_out w) = 0 /\ sw_proc (snd (tr_out w)) = Some (mkProc (po_cur p) (po_recent p) true)
  | None => dbus_of (snd (tr_out w)) (fst (tr_out w)) = Some (NAME_TAKE_RECORDING, Some [MSG_NOT_STARTED]) /\
            fst (tr_out w) <> 0 /\ sw_proc (snd (tr_out w)) = None
  end.
Proof. exact (fun w => conj (tie_TakeTestRecording w) (TakeTestRecording_result w)). Qed.
