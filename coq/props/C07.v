(* Property C07 - motion is reported exactly per the configured thresholds (fixed threshold). *)
From Coq Require Import String.
From Coq Require Import List ZArith Bool.
From TR Require Import model.Ring model.Detector model.DetSpec proofs.DetC07.
(* constants and wiring read from the Go sources on every run *)
From TR Require Import model.GoSem model.CtorExt proofs.TieCtor translated.MotionDetector.
From TR Require Import proofs.FactsDet.
From TR Require Import model.DetExt proofs.TieDet.
Import ListNotations.
Open Scope Z_scope.

(* For every FFC-free stream of frames with resets anywhere, every resolution and every fixed-
   threshold configuration with count-thresh >= 1, frame-compare-gap >= 1 (delta-thresh is an
   unsigned 16-bit setting, hence >= 0), the detector's verdict for each frame equals
   spec_verdict (model/DetSpec.v) on the frames since start-up / the last reset: at least
   count-thresh interior pixels differ by more than delta-thresh from the same pixel gap frames
   earlier (or from the earliest frame of the epoch), both raised to temp-thresh; warmer-only
   counts increases only; unless use-one-diff-only the pixel must also have exceeded delta in
   the previous frame's comparison; the first frame of an epoch never reports motion. *)
Theorem C07_detector_eq_spec : forall c evs,
    d_dynamic c = false -> 1 <= d_count c -> 1 <= d_gap c -> 0 <= d_delta c ->
    ffc_free evs = true ->
    verdicts c evs = spec07_run c [] evs.
Proof. exact S07_holds. Qed.

Theorem C07_threshold_fixed : forall c evs,
    d_dynamic c = false ->
    Forall (fun o => snd o = d_thresh0 c) (drun c (dinit c) evs).
Proof. exact fixed_threshold_constant. Qed.

(* non-vacuity and boundaries: 3x3, edge 0, gap 1, one-diff, delta 5, count 1, thresh 10.
   Values at the threshold do not count (10 vs 0 floors to 10 vs 10), a difference of exactly
   delta does not count, delta+1 does. *)
Definition cfg := mkD 3 3 0 1 true 5 1 false false 10 0 0 0.
Definition fr (v : Z) := DFrame (mkF [[v; 0; 0]; [0; 0; 0]; [0; 0; 0]] 100000000000 0).
Example C07_ex : verdicts cfg [fr 0; fr 10; fr 15; fr 21; fr 21; DReset; fr 40; fr 46]
                 = [false; false; false; true; false; false; false; true].
Proof. vm_compute. reflexivity. Qed.

(* ---- source tie: motion/motion.go as it is in /repo now ----
   coq/translated/MotionDetector.v is regenerated from the Go source on every run (all 14 functions
   of the detector, pixel loops included); model/DetExt.v gives the calls that leave it - frame
   pixels and telemetry by handle, the float32 weights, every floating-point operation (computed
   with SpecFloat as in the model), debug tracker and logging - their meaning.  For every
   configuration with a non-empty interior and a compare gap >= 1, every stream of frames of the
   configured resolution with 16-bit pixels, and resets: after every event the translated detector
   has exactly the verdict, threshold, background-frame count, background and weights of the model
   the theorems above are about.  Two decidable side conditions on the model's own run: no weight
   exceeds MaxFloat32 (the Go code's clamp, dead code by rounding, is not in the model) and the
   threshold stays a 16-bit value (the Go field is a uint16; shown for all grids up to 2^20 pixels
   in props/C15.v).  A change to motion.go that changes what the detector computes on some stream
   breaks this theorem, whether or not a generated input reaches it. *)
Theorem C07_source_tie : forall c evs,
    dcfg_ok c -> Forall (event_ok c) evs ->
    weights_bounded_from c (dinit c) evs = true ->
    thresh_bounded_from c (dinit c) evs = true ->
    map (dproj c) (src_dtrace c evs) = model_dtrace c (dinit c) evs.
Proof. exact tie_detector. Qed.

(* ---- source tie for the constructor(s) as they are in /repo now (coq/translated, regenerated on
   every run; configuration values are asked of the outside world by name, model/CtorExt.v) ---- *)
(* NewMotionDetector builds the model's initial detector for the configuration it is given: compare
   ring of gap+1 frames, diff ring of 2, thresholds as configured (a fixed threshold is NOT clamped to
   temp-thresh-min/max), geometry start = edge, rowStop = ResY - edge, columnStop = ResX - edge,
   numPixels = interior size. *)
Theorem C07_source_constructor : forall c preview,
    0 <= r_gap c -> 0 <= r_resx c -> 0 <= r_resy c -> 0 <= r_edge c ->
    u16 (r_thresh c) -> u16 (r_tmin c) -> u16 (r_tmax c) -> u16 (r_delta c) ->
    exists d w',
      MotionDetector_fn_NewMotionDetector cext preview (cw_init c) = Ok d w' /\
      motionDetector_set_framesHz 9 d = md_init (dcfg_of c preview) /\
      motionDetector_framesHz d = r_fps c /\
      cw_next w' = r_gap c + 4.
Proof. exact tie_NewMotionDetector. Qed.

From TR Require Import proofs.Bridges.

(* ---- the detector is fed by motion/motionprocessor.go as it is now (proofs/TieProc.v, restated in proofs/Bridges.v):
   on every history the translated processor makes exactly the model's calls - every accepted frame reaches Detect exactly
   once, inside or outside the recording window, recording or not; a bad frame never does *)
Theorem C07_source_processor_feeds_detector : BProc.processor_source_tie_stmt.
Proof. exact BProc.processor_source_tie. Qed.
