(* Property C03 - recording length: min-secs past the last motion, never more than max-secs. *)
From Coq Require Import String.
From Coq Require Import List ZArith Bool.
From TR Require Import model.Ring model.Processor model.ProcAbs model.ProcSpec proofs.ProcS0304.
(* constants and wiring read from the Go sources on every run *)
From TR Require Import model.ProcExt proofs.TieProcCorollaries.
From TR Require Import model.GoSem model.CtorExt proofs.TieCtor model.ProcExt translated.MotionProcessor.
From TR Require Import proofs.FactsProc.
Import ListNotations.
Open Scope Z_scope.

(* Counting from the trigger frame (position 1), with k the position of the most recent motion
   frame, the recording is stopped on the frame at position p if and only if
   min (k - 1 + minFrames) maxFrames <= p: it ends with the frame that completes minFrames
   frames counted from (and including) the last motion frame, never exceeds maxFrames, and the
   trigger frame is always written.  For all motion patterns, all 0 <= min <= max, all streams
   with bad frames / resets (which may cut a recording short), all refused starts. *)
Theorem C03_length_rule : forall c fm fc ft evs,
    1 <= p_size c -> 0 <= p_min c <= p_max c -> wf_ids 0 evs ->
    let tr := psteps c fm fc ft evs in
    nowf tr = true ->
    S03 c tr = true.
Proof. exact S03_holds. Qed.

(* non-vacuity: min 2, max 4 frames, trigger 1: sustained motion gives back-to-back
   recordings of exactly 4 post-trigger frames; a single blip gives 2 *)
Definition ex_cfg := mkCfg 1 2 4 1 false.
Definition sustained := map (fun i => EFrame (Z.of_nat i) true true) (seq 0 9).
Example C03_ex_sustained :
  map (has_stop SMotion) (map snd (psteps ex_cfg [] [] [] sustained)) =
    [false; false; false; true; false; false; false; true; false].
Proof. vm_compute. reflexivity. Qed.
Example C03_ex_blip :
  map (has_stop SMotion) (map snd (psteps ex_cfg [] [] []
      [EFrame 0 false true; EFrame 1 true true; EFrame 2 false true; EFrame 3 false true])) =
    [false; false; true; false].
Proof. vm_compute. reflexivity. Qed.

(* ---- source tie for the constructor(s) as they are in /repo now (coq/translated, regenerated on
   every run; configuration values are asked of the outside world by name, model/CtorExt.v) ---- *)
(* NewMotionProcessor builds exactly the initial state of the model with ring capacity
   preview-secs*fps + trigger-frames, minFrames = min-secs*fps, maxFrames = max-secs*fps (the numbers the
   length rule above is stated in), and hands the detector preview-secs*fps preview frames. *)
Theorem C03_source_constructor : forall c,
    0 <= p_size (pcfg_of c) ->
    exists w',
      MotionProcessor_fn_NewMotionProcessor cext (cw_init c) = Ok (mp_init (pcfg_of c)) w' /\
      In ("NewMotionDetector"%string, [ASym "*motionConf"; AInt (r_preview_secs c * r_fps c); ASym "c"]) (cw_calls w').
Proof. exact tie_NewMotionProcessor. Qed.

(* ---- source tie: motion/motionprocessor.go and motion/frameloop.go as they are in /repo now ----
   coq/translated/MotionProcessor.v and FrameLoop.v are regenerated from the Go sources on every run;
   model/ProcExt.v gives the calls that leave them (frame parser, detector verdict, recording window,
   the three sinks with their fault scripts, listener, log, mutex) the meaning the model assumes.
   For every configuration with ring capacity >= 1, every event list (valid / bad frames, resets,
   test-recording requests) and every fault script, the translated Process / Reset produce exactly the
   calls and callbacks of the model: the steps the theorems above speak about ARE the steps of the
   translated source.  A change to motionprocessor.go or frameloop.go that alters what the processor
   does on some history breaks this theorem, whether or not a generated input reaches that history. *)
Theorem C03_source_tie : forall c fm fc ft evs,
    1 <= p_size c ->
    src_psteps c fm fc ft evs = psteps c fm fc ft evs.
Proof. exact src_psteps_eq. Qed.
