(* Property C13 - bad frames are rejected, never recorded or buffered, end the recording
   cleanly. *)
From Coq Require Import List ZArith Bool.
From TR Require Import model.GoSem model.Socket model.ConnExt translated.ConnLoop proofs.TieConn proofs.TieConnCorollaries.
From TR Require Import model.Ring model.Detector model.Parse model.Processor model.ProcAbs model.ProcSpec
     proofs.ParseProofs proofs.ProcS1217.
(* constants and wiring read from the Go sources on every run *)
From TR Require Import model.ProcExt proofs.TieProcCorollaries.
From TR Require Import proofs.FactsRing proofs.FactsProc proofs.FactsDeps.
Import ListNotations.
Open Scope Z_scope.

(* parser: rejected iff some pixel outside the edge border is zero (Lepton big-endian and
   Boson little-endian alike, any edge-pixels, any resolution) *)
Theorem C13_bad_iff : forall f raw h w edge old,
    p_bad (parse_raw f raw h w edge old) = has_bad_pixel f raw h w edge.
Proof. exact parse_bad_iff. Qed.

(* valid raw frames are decoded pixel-exactly *)
Theorem C13_decode_exact : forall f raw h w edge old y x,
    has_bad_pixel f raw h w edge = false -> (y < h)%nat -> (x < w)%nat ->
    gget (p_pix (parse_raw f raw h w edge old)) y x = raw_pixel f raw w y x.
Proof. exact parse_decode_exact. Qed.

(* Lepton telemetry faithfully (temperatures as the float64 the Go code computes,
   compared bit for bit by the correspondence) *)
Theorem C13_telemetry_exact : forall raw h w edge old,
    let t := p_tel (parse_raw Lepton raw h w edge old) in
    t_timeon t = big16_u32 raw 2 * 1000000 /\
    t_lastffc t = big16_u32 raw 60 * 1000000 /\
    t_framecount t = big16_u32 raw 40 /\
    t_framemean t = be16 raw 44 /\
    t_ffcstate t = (big16_u32 raw 6 / 16) mod 4 /\
    t_tempc t = centik_to_c (be16 raw 48) /\
    t_lastffctempc t = centik_to_c (be16 raw 58).
Proof. exact lepton_telemetry_exact. Qed.

(* processor: for every event list and every fault script - a bad frame writes nothing to any
   sink, ends an open motion recording with exactly [RecordingEnded; StopRecording] and nothing
   else on the motion sink; and no sink ever receives an id that is not the id of an already
   accepted frame: the slot a bad frame clobbered (BAD_ID in the model) is never written,
   neither at once nor later from the pre-trigger buffer (S13; with C01/C02 the pre-trigger
   frames are exactly accepted ids) *)
Theorem C13_never_recorded_or_buffered : forall c fm fc ft evs,
    1 <= p_size c -> wf_ids 0 evs ->
    S13 c (psteps c fm fc ft evs) = true.
Proof. exact S13_holds. Qed.

(* processing resumes with the next frame: a bad frame that finds no recording open changes
   nothing but the (about to be overwritten) current ring slot *)
Theorem C13_resumes : forall c s,
    m_rec s = false ->
    let s' := fst (mstep c s EBad) in
    snd (mstep c s EBad) = [] /\
    m_rec s' = m_rec s /\ m_fw s' = m_fw s /\ m_wu s' = m_wu s /\ m_trig s' = m_trig s /\
    m_faults s' = m_faults s /\ m_ring s' = put (m_ring s) BAD_ID.
Proof. exact bad_frame_resumes. Qed.

(* non-vacuity: 3x3 Boson frames, edge 1: a zero on the border is accepted, a zero in the
   centre is rejected after the first five pixels have been stored *)
Definition rawb (c : Z) : list Z := [0;0; 1;0; 1;0;  1;0; c;0; 1;0;  1;0; 1;0; 7;0].
Example C13_ex :
  p_bad (parse_raw Boson (rawb 5) 3 3 1 (gbuild 3 3 (fun _ _ => 9))) = false /\
  p_bad (parse_raw Boson (rawb 0) 3 3 1 (gbuild 3 3 (fun _ _ => 9))) = true /\
  p_pix (parse_raw Boson (rawb 0) 3 3 1 (gbuild 3 3 (fun _ _ => 9))) = [[0; 1; 1]; [1; 0; 9]; [9; 9; 9]].
Proof. vm_compute. auto. Qed.

(* ---- source tie: motion/motionprocessor.go and motion/frameloop.go as they are in /repo now ----
   coq/translated/MotionProcessor.v and FrameLoop.v are regenerated from the Go sources on every run;
   model/ProcExt.v gives the calls that leave them (frame parser, detector verdict, recording window,
   the three sinks with their fault scripts, listener, log, mutex) the meaning the model assumes.
   For every configuration with ring capacity >= 1, every event list (valid / bad frames, resets,
   test-recording requests) and every fault script, the translated Process / Reset produce exactly the
   calls and callbacks of the model: the steps the theorems above speak about ARE the steps of the
   translated source.  A change to motionprocessor.go or frameloop.go that alters what the processor
   does on some history breaks this theorem, whether or not a generated input reaches that history. *)
Theorem C13_source_tie : forall c fm fc ft evs,
    1 <= p_size c ->
    src_psteps c fm fc ft evs = psteps c fm fc ft evs.
Proof. exact src_psteps_eq. Qed.

(* ---- source tie: the wiring, as cmd/thermal-recorder/main.go builds it now ----
   coq/translated/ConnLoop.v is handleConn regenerated from the Go source on every run; proofs/TieConn.v proves the
   log it produces for every connection (header, any stream, any script of Process results), and the wiring part of
   that log has the shape below: ONE processor, given the parser frameParser chose; as motion recorder the file
   recorder whose Stop is deferred, wrapped by the throttle exactly when it is activated; a continuous recorder of
   its own exactly when configured; and for test recordings a plain file recorder of its own - not shared with the
   motion or the continuous recorder, never throttled. *)
Theorem C13_source_handleConn : forall cfg cs script i1 i2 fuel text rest h,
  header_c (S (total_len cs)) cs [] = Some (text, rest) ->
  c_decode cfg text = Some h ->
  parser_of (h_brand h) (h_model h) <> 0 ->
  5 <= h_fs h -> h_fps h <> 0 -> i1 <> 0 -> i2 <> 0 ->
  (total_len rest < fuel)%nat ->
  post (src_conn cfg fuel (conn_init cs script i1 i2))
    (fun r w' =>
       r = Some (end_err (S (total_len rest)) (Z.to_nat (h_fs h)) rest) /\ cw_in w' = [] /\
       cw_log w' = prelude_log cfg (parser_of (h_brand h) (h_model h)) ++
                   loop_log (proc_tok cfg) (frames_c (S (total_len rest)) (Z.to_nat (h_fs h)) rest) script ++
                   [EStop REC_TOK]).
Proof. exact tie_handleConn. Qed.

Theorem C13_source_wiring : forall cfg parser,
  let l := prelude_log cfg parser in
  exists rec const snap tok,
    filter (fun e => match e with ENewProcessor _ _ _ _ _ => true | _ => false end) l =
      [ENewProcessor parser rec const snap tok] /\
    In (ENewRecorder snap) l /\ snap <> REC_TOK /\ snap <> rec /\ snap <> const /\
    ~ In (ESetConstant snap) l /\ (forall m t, ~ In (ENewThrottle snap m t) l) /\
    (if c_throttle cfg then In (ENewThrottle REC_TOK (c_minsecs cfg + c_preview cfg) rec) l else rec = REC_TOK) /\
    (if c_const cfg then In (ENewRecorder const) l /\ In (ESetConstant const) l /\ const <> REC_TOK /\ const <> rec
     else const = 0) /\
    hd_error l = Some (EAutoFFC true).
Proof. exact wiring_facts. Qed.

(* the parser handleConn hands to the processor is the library's Lepton parser for lepton3 / lepton3.5 and
   convertRawBosonFrame for boson (nothing in between that could swallow a BadFrameErr), and the frame loop answers
   every bad frame with exactly one event and one camera restart and goes on with the next frame *)
Theorem C13_source_parser : forall cfg b m brand model w,
  vget w b = VStr brand -> vget w m = VStr model ->
  post (ConnLoop_fn_frameParser (cext cfg) b m w)
       (fun r w' => r = parser_of brand model /\ exists extra, w' = set_vals w (cw_vals w ++ extra)).
Proof. exact tie_frameParser. Qed.

From TR Require Import proofs.Bridges.

(* ---- the configuration the detector and the frame parsers are given (proofs/TieConf.v, restated in proofs/Bridges.v):
   validateConfig changes nothing; every thermal-motion key - edge-pixels among them, 0 included - is the file's value
   when present, else the camera model's default *)
Theorem C13_source_config_validate_is_empty : BConf.validate_is_empty_stmt.
Proof. exact BConf.validate_is_empty. Qed.
Theorem C13_source_config_motion_keys : BConf.motion_keys_stmt.
Proof. exact BConf.motion_keys. Qed.
