(* Property C14 - frame socket: header round-trips, frames delivered once, 'clear' resets.
   Proof on a reader model over chunked byte streams + static agreement of the two daemons'
   constants - partial: the YAML codec (yaml.v1) is not modelled; what the theorems assume of the
   encoder's output (header_text_ok: ends with a newline, contains no blank line) and the
   decode-after-encode identity are validated against the real codec on every run. *)
From Coq Require Import String List ZArith Bool Arith.
From TR Require Import Extracted model.Socket proofs.SocketProofs.
From TR Require Import model.GoSem model.ConnExt translated.ConnLoop proofs.TieConn.
From TR Require Import model.HdrExt translated.HeaderReader proofs.TieHdr.
From TR Require Import translated.Leptond model.LeptondExt proofs.TieLeptondSpecs proofs.TieLeptond.
Import ListNotations.
Close Scope string_scope.
Open Scope list_scope.
Open Scope Z_scope.

(* however the byte stream is split into reads, the result is that of the unsplit stream *)
Theorem C14_chunking_irrelevant : forall fs cs,
    run_conn fs cs = run_conn fs [List.concat cs].
Proof. exact chunking_irrelevant. Qed.

(* for every header text the camera daemon's encoder can produce, every frame size >= 5, every
   list of frames (of that size, not beginning with the marker bytes) and markers, and every
   segmentation into reads: the header text is recovered exactly (nothing beyond the blank line
   is consumed), every frame is delivered exactly once and in order, every marker is a reset -
   alignment is never lost *)
Theorem C14_stream_roundtrip : forall fs h items cs,
    (5 <= fs)%nat -> header_text_ok h = true -> forallb (item_ok fs) items = true ->
    List.concat cs = h ++ [NL] ++ flat_map enc_item items ->
    run_conn fs cs = mkCR (Some h) items.
Proof. exact stream_roundtrip. Qed.

(* a connection closed in the middle of a frame loses only that partial frame *)
Theorem C14_stream_roundtrip_partial : forall fs h items tail cs,
    (5 <= fs)%nat -> header_text_ok h = true -> forallb (item_ok fs) items = true ->
    (List.length tail < fs)%nat -> negb (bytes_eqb (firstn PROBE tail) MARKER) = true ->
    List.concat cs = h ++ [NL] ++ flat_map enc_item items ++ tail ->
    run_conn fs cs = mkCR (Some h) items.
Proof. exact stream_roundtrip_partial. Qed.

(* a header cut short by the connection closing - at ANY truncation point, any segmentation -
   yields an error, never a (partial) camera description, and does not hang (the model's reader
   terminates on every input) *)
Theorem C14_truncated_header_errors : forall fs h p q cs,
    header_text_ok h = true -> h ++ [NL] = p ++ q -> q <> [] ->
    List.concat cs = p ->
    cr_header (run_conn fs cs) = None.
Proof. exact truncated_header_errors. Qed.

(* both daemons agree on the marker and on the header keys (regenerated from
   cmd/leptond/main.go, cmd/thermal-recorder/main.go, headers/headers.go, headers/headerinfo.go
   on every run); the model's marker and probe length are the recorder's *)
Theorem C14_marker_agreement :
  leptond_clear_marker = recorder_clear_marker /\
  MARKER = recorder_clear_marker /\
  Z.of_nat PROBE = recorder_probe_len /\
  Z.of_nat (List.length recorder_clear_marker) = recorder_probe_len /\
  forallb (fun k => existsb (String.eqb k) header_keys_read) header_keys_sent = true.
Proof. repeat split; vm_compute; reflexivity. Qed.

(* KNOWN FINDING: the marker is in-band.  A frame that begins with the bytes "clear" is taken
   for a marker and alignment is lost for the rest of the connection - the guard in item_ok is
   necessary (possible for Boson frames: two border pixels 0x6c63, 0x6165 and a low byte 0x72). *)
Theorem C14_inband_marker_refuted :
  exists fs h items,
    (5 <= fs)%nat /\ header_text_ok h = true /\
    Forall (fun i => match i with IFrame b => List.length b = fs | IClear => True end) items /\
    run_conn fs [h ++ [NL] ++ flat_map enc_item items] <> mkCR (Some h) items.
Proof. exact inband_marker_refuted. Qed.

(* ---- the Go source itself (coq/translated/ConnLoop.v, regenerated from handleConn in
   cmd/thermal-recorder/main.go on every run; outside world: model/ConnExt.v) ---- *)

(* the frame loop as written: from any state in which its variables are what handleConn made them
   (LoopInv; fi1, fi2 are the connection's two log intervals, non-zero - handleConn computes them as
   package value * fps and, since /repo 927eb9c, never writes the package values, so they no longer
   grow from one connection to the next), for every frame size >= 5, every segmentation of the remaining stream, every script
   of Process results and fuel >= S (total_len cs): it does not panic, it ends only because the
   stream ended (everything is consumed, the read error is returned), and what it adds to the log
   is, in order, one Reset per marker and one Process(frame bytes) per frame of the model's
   frames_c - a bad frame followed by exactly one event and one RestartCamera - nothing else *)
Theorem C14_source_loop : forall cfg fs rd fi1 fi2 buf P w tf fuel,
  (5 <= fs)%nat -> LoopInv fs rd fi1 fi2 buf P w -> (S (total_len (cw_in w)) <= fuel)%nat ->
  let cs := cw_in w in
  post (forever fuel (ConnLoop_fn_handleConn_loop1 (cext cfg) rd fi1 fi2 buf) tf w)
       (fun r w' =>
          r = Some (end_err (S (total_len cs)) fs cs) /\ cw_in w' = [] /\
          cw_log w' = cw_log w ++ loop_log P (frames_c (S (total_len cs)) fs cs) (cw_script w)).
Proof. exact tie_conn_loop. Qed.

Theorem C14_source_loop_items : forall cfg fs rd fi1 fi2 buf P w tf fuel,
  (5 <= fs)%nat -> LoopInv fs rd fi1 fi2 buf P w -> (S (total_len (cw_in w)) <= fuel)%nat ->
  post (forever fuel (ConnLoop_fn_handleConn_loop1 (cext cfg) rd fi1 fi2 buf) tf w)
       (fun r w' => exists added,
          cw_log w' = cw_log w ++ added /\
          items_of added = frames_c (S (total_len (cw_in w))) fs (cw_in w) /\
          (r = Some ERR_EOF \/ r = Some ERR_UEOF) /\ cw_in w' = []).
Proof. exact tie_conn_loop_items. Qed.

(* handleConn from a fresh connection: the Reset / Process entries of its log are the items of
   run_conn - the model the theorems above are about *)
Theorem C14_source_conn_items : forall cfg cs script i1 i2 fuel text rest h,
  header_c (S (total_len cs)) cs [] = Some (text, rest) ->
  c_decode cfg text = Some h ->
  parser_of (h_brand h) (h_model h) <> 0 ->
  5 <= h_fs h -> h_fps h <> 0 -> i1 <> 0 -> i2 <> 0 ->
  (S (total_len cs) <= fuel)%nat ->
  post (src_conn cfg fuel (conn_init cs script i1 i2))
    (fun r w' =>
       items_of (cw_log w') = cr_items (run_conn (Z.to_nat (h_fs h)) cs) /\
       (r = Some ERR_EOF \/ r = Some ERR_UEOF) /\ cw_in w' = []).
Proof. exact tie_handleConn_items. Qed.

(* the whole log of handleConn: wiring, loop, and the deferred Stop of the motion recorder last *)
Theorem C14_source_conn : forall cfg cs script i1 i2 fuel text rest h,
  header_c (S (total_len cs)) cs [] = Some (text, rest) ->
  c_decode cfg text = Some h ->
  parser_of (h_brand h) (h_model h) <> 0 ->
  5 <= h_fs h -> h_fps h <> 0 -> i1 <> 0 -> i2 <> 0 ->
  (total_len rest < fuel)%nat ->
  post (src_conn cfg fuel (conn_init cs script i1 i2))
    (fun r w' =>
       r = Some (end_err (S (total_len rest)) (Z.to_nat (h_fs h)) rest) /\ cw_in w' = [] /\
       cw_log w' = prelude_log cfg (parser_of (h_brand h) (h_model h)) ++
                   loop_log (proc_tok cfg) (frames_c (S (total_len rest)) (Z.to_nat (h_fs h)) rest) script ++
                   [EStop REC_TOK]).
Proof. exact tie_handleConn. Qed.

Theorem C14_source_stop_once : forall cfg cs script i1 i2 fuel text rest h,
  header_c (S (total_len cs)) cs [] = Some (text, rest) ->
  c_decode cfg text = Some h ->
  parser_of (h_brand h) (h_model h) <> 0 ->
  5 <= h_fs h -> h_fps h <> 0 -> i1 <> 0 -> i2 <> 0 ->
  (total_len rest < fuel)%nat ->
  post (src_conn cfg fuel (conn_init cs script i1 i2))
    (fun r w' => exists before, cw_log w' = before ++ [EStop REC_TOK] /\ filter is_stop before = [] /\
                                hd_error before = Some (EAutoFFC true) /\ In (ENewRecorder REC_TOK) before).
Proof. exact tie_handleConn_stop. Qed.

(* ---- the header reader itself (coq/translated/HeaderReader.v, regenerated from ReadHeaderInfo, toInt,
   toStr and the accessors of headers/headerinfo.go on every run; outside world: model/HdrExt.v, in which
   yaml.Unmarshal is a decoder PARAMETER [dec] - every statement is for every decoder) ---- *)

(* ReadHeaderInfo as written, for every world in which [rd] is the bufio.Reader, every segmentation of the
   stream and fuel >= S (total_len cs): it does not panic and ([hdr_post])
   - when the stream ends before the blank line (Socket.header_c = None) it returns io.EOF and the zero
     description, has consumed everything and never calls the decoder;
   - otherwise the decoder is called exactly once with exactly header_c's text, the stream is left at
     exactly header_c's rest (NOTHING beyond the blank line is consumed), the decoder's error is returned
     when it fails, and else the eight fields are toInt / toStr of the decoded map under the keys of
     headers/headers.go (missing or wrongly typed: 0 / "") *)
Theorem C14_source_header : forall dec rd w fuel,
  hoget w rd = HReader -> (S (total_len (hw_in w)) <= fuel)%nat ->
  hpost (src_header dec fuel rd w) (hdr_post dec rd w).
Proof. exact tie_ReadHeaderInfo. Qed.

(* an error exactly when the stream ends before the blank line or the decoder fails *)
Theorem C14_source_header_error_iff : forall dec rd w fuel,
  hoget w rd = HReader -> (S (total_len (hw_in w)) <= fuel)%nat ->
  hpost (src_header dec fuel rd w) (fun r w' => exists hi e, r = Some (hi, e) /\
    (e <> 0 <->
     (header_c (S (total_len (hw_in w))) (hw_in w) [] = None \/
      exists text rest, header_c (S (total_len (hw_in w))) (hw_in w) [] = Some (text, rest) /\ dec text = None))).
Proof. exact tie_ReadHeaderInfo_error_iff. Qed.

(* the text the Go code hands to the YAML decoder is the cr_header of the model the theorems above are about *)
Theorem C14_source_header_is_model : forall dec fs cs rd w fuel,
  hoget w rd = HReader -> hw_in w = cs -> (S (total_len cs) <= fuel)%nat ->
  hpost (src_header dec fuel rd w) (fun r w' =>
    hw_decoded w' = hw_decoded w ++ match cr_header (run_conn fs cs) with Some t => [t] | None => [] end).
Proof. exact src_header_is_run_conn. Qed.

(* C14_truncated_header_errors for the source: a header cut short at ANY point, any segmentation - an error
   (io.EOF), the zero description, no decoder call, no hang (the stated fuel suffices) *)
Theorem C14_source_header_truncated : forall dec h p q rd w fuel,
  header_text_ok h = true -> h ++ [NL] = p ++ q -> q <> [] ->
  hoget w rd = HReader -> List.concat (hw_in w) = p -> (S (total_len (hw_in w)) <= fuel)%nat ->
  hpost (src_header dec fuel rd w) (fun r w' =>
    r = Some (ZERO_HI, ERR_EOF) /\ hw_in w' = [] /\ hw_decoded w' = hw_decoded w).
Proof. exact src_truncated_header_errors. Qed.

(* C14_stream_roundtrip's header half for the source: the encoder's text is what the decoder gets, exactly the
   bytes after the blank line remain for the frame loop *)
Theorem C14_source_header_roundtrip : forall dec h tail rd w fuel,
  header_text_ok h = true -> hoget w rd = HReader -> List.concat (hw_in w) = h ++ [NL] ++ tail ->
  (S (total_len (hw_in w)) <= fuel)%nat ->
  hpost (src_header dec fuel rd w) (fun r w' =>
    List.concat (hw_in w') = tail /\ hw_decoded w' = hw_decoded w ++ [h] /\
    match dec h with
    | None => r = Some (ZERO_HI, ERR_OTHER)
    | Some m => exists hi, r = Some (hi, 0) /\ hdr_view w' hi = Some (fields_of m)
    end).
Proof. exact src_header_roundtrip. Qed.

(* the meaning model/ConnExt.v gives by hand to handleConn's call headers.ReadHeaderInfo(reader) - on which
   the C14_source_conn theorems rest - is what the translated function computes on the same stream, when
   c_decode is "decode, then the HeaderInfo literal" *)
Theorem C14_source_header_conn_clause : forall dec cfg cw r tok cw' hw rd fuel,
  (forall t, c_decode cfg t = option_map (fun m => hdr_of_fields (fields_of m)) (dec t)) ->
  oget cw r = OReader -> do_readheader cfg [AInt r] cw = (tok, cw') ->
  hoget hw rd = HReader -> hw_in hw = cw_in cw -> (S (total_len (cw_in cw)) <= fuel)%nat ->
  hpost (src_header dec fuel rd hw) (fun res hw' =>
    hw_in hw' = cw_in cw' /\
    exists hi, res = Some (hi, cw_pending cw') /\
    (cw_pending cw' = 0 ->
     exists f, hdr_view hw' hi = Some f /\ oget cw' tok = OHeader (hdr_of_fields f))).
Proof. exact conn_header_clause_is_source. Qed.

Theorem C14_source_header_accessors : forall W (ext : String.string -> list arg -> W -> Z * W) (h : HeaderInfo) (w : W),
  HeaderInfo_ResX ext h w = Ok (h, HeaderInfo_resX h) w /\
  HeaderInfo_ResY ext h w = Ok (h, HeaderInfo_resY h) w /\
  HeaderInfo_FPS ext h w = Ok (h, HeaderInfo_fps h) w /\
  HeaderInfo_FrameSize ext h w = Ok (h, HeaderInfo_framesize h) w /\
  HeaderInfo_Model ext h w = Ok (h, HeaderInfo_model h) w /\
  HeaderInfo_Brand ext h w = Ok (h, HeaderInfo_brand h) w /\
  HeaderInfo_Firmware ext h w = Ok (h, HeaderInfo_firmware h) w /\
  HeaderInfo_CameraSerial ext h w = Ok (h, HeaderInfo_serial h) w.
Proof. exact tie_accessors. Qed.

(* ---- the SENDER itself (coq/translated/Leptond.v, regenerated from sendCameraSpecs, runCamera and runMain
   - from its call of sendCameraSpecs on - in cmd/leptond/main.go on every run; outside world and model:
   model/LeptondExt.v, in which the camera, the restarts, the service's reset flag and the write faults are
   scripts and yaml.Marshal is an encoder PARAMETER [s_encode] - every statement is for every encoder) ---- *)

(* sendCameraSpecs as written: the map literal has the keys of headers/headers.go and the values of
   [sender_specs] (serial 0 / firmware of 0.0.0 when GetSerial / GetSoftwareVersion fail, whatever they hand
   back); it is encoded once; a failing GetModel / yaml.Marshal: that error and nothing written; a failing Write
   of the text: that error and nothing more; else the text, then the newline (its error ignored), nil *)
Theorem C14_source_sender_header : forall cfg c conn w,
  scfg_ok cfg -> sw_open w = c -> c <> 0 -> sw_conn w = conn -> conn <> 0 ->
  spost (Leptond_fn_sendCameraSpecs (sext cfg) c conn w) (fun r w' =>
    sstatic w w' /\ sw_cam w' = sw_cam w /\ sw_flag w' = sw_flag w /\ sw_log w' = sw_log w /\
    sw_nobj w' = sw_nobj w /\
    match s_model cfg with
    | None => r = SERR_MODEL /\ sw_out w' = sw_out w /\ sw_wf w' = sw_wf w
    | Some m =>
      match s_encode cfg (sender_specs cfg m) with
      | None => r = SERR_YAML /\ sw_out w' = sw_out w /\ sw_wf w' = sw_wf w
      | Some h =>
        match sw_wf w with
        | WFail n :: wf' => r = SERR_WRITE /\ sw_out w' = sw_out w ++ [firstn n h] /\ sw_wf w' = wf'
        | wf => r = 0 /\ sw_out w' = sw_out w ++ [h; nl_chunk (tl wf)] /\ sw_wf w' = tl (tl wf)
        end
      end
    end).
Proof. exact tie_sendCameraSpecs. Qed.

(* one call of runCamera, from any world in which the camera is open, with fuel > |camera script|: it writes the
   frames of [rc_plan] - each exactly as NextFrame delivered it, one Write per frame - until a Write fails (that
   error at once, nothing more written); a NextFrame error ends it with a *nextFrameErr, the reset flag with nil
   after clearing the flag, and the frame read in that iteration is not written *)
Theorem C14_source_sender_frames : forall cfg c conn fuel w,
  sw_open w = c -> c <> 0 -> sw_conn w = conn -> conn <> 0 -> 0 <= sw_nobj w ->
  (List.length (sw_cam w) < fuel)%nat ->
  spost (Leptond_fn_runCamera (sext cfg) fuel c conn w) (fun r w' =>
    let '(fs, by_reset, cam', flag') := rc_plan (sw_cam w) (sw_flag w) in
    sw_out w' = sw_out w ++ walk (map IFrame fs) (sw_wf w) /\
    sw_power w' = sw_power w /\ sw_start w' = sw_start w /\ sw_open w' = sw_open w /\ sw_conn w' = sw_conn w /\
    sw_nobj w' = sw_nobj w + 1 /\
    if frames_ok fs (sw_wf w) then
      r = Some (if by_reset then 0 else NFE + SERR_CAM) /\ sw_cam w' = cam' /\ sw_flag w' = flag' /\
      sw_wf w' = skipn (List.length fs) (sw_wf w) /\
      sw_log w' = sw_log w ++ (if by_reset then [SFlagCleared] else [])
    else r = Some SERR_WRITE /\ sw_log w' = sw_log w).
Proof. exact tie_runCamera. Qed.

(* one round of runMain's restart loop ([round_post]): runCamera; a Write error returns it; else removeCamera,
   Close of the camera of this round, the power cycle, startCamera, setCamera of what it returned - a failure of
   either returns that error with nothing more written - and then exactly ONE marker (= the recorder's
   clearBuffer, C14_marker_agreement), whose Write error is ignored; the next round uses the new camera *)
Theorem C14_source_sender_restart : forall cfg fuel c conn err w,
  sw_open w = c -> c <> 0 -> sw_conn w = conn -> conn <> 0 -> 0 <= sw_nobj w ->
  (List.length (sw_cam w) < fuel)%nat ->
  spost (Leptond_fn_runMain_tail_loop1 (sext cfg) fuel conn (err, c) w) (round_post w).
Proof. exact tie_restart_round. Qed.

(* the whole sender, for EVERY script of NextFrame results, reset-flag readings, power-cycle and startCamera
   results and write faults, fuel > |camera script| + |power script|: no panic; it returns an error (it never
   returns nil); the chunks on the connection are exactly [sender_chunks]: the header text, the newline, then
   [walk (main_plan ...)] - per successfully read frame (not read under the reset flag) its bytes, one marker after
   each successful restart, NOTHING after a failed frame Write or a failed restart; and no call it made to the
   outside world was senseless (NextFrame / Close only on the open camera, power cycling only with the camera
   closed, Writes only to the connection) *)
Theorem C14_source_sender_writes : forall cfg cam flag power start wf fuel,
  scfg_ok cfg -> (List.length cam + List.length power < fuel)%nat ->
  spost (src_sender cfg fuel (sender_init cam flag power start wf)) (fun r w' =>
    r = Some (sender_result cfg cam flag power start wf) /\
    sw_out w' = sender_chunks cfg cam flag power start wf /\
    ~ In SBad (sw_log w')).
Proof. exact tie_sender. Qed.

Theorem C14_source_sender_returns_error : forall cfg cam flag power start wf,
  sender_result cfg cam flag power start wf <> 0.
Proof. exact sender_result_nonzero. Qed.

(* in the words of model/Socket.v: when the two Writes of the header succeed and no marker's Write fails
   (SIDE CONDITION FORCED BY THE GO CODE, which ignores the errors of the newline's and the markers' Writes -
   TieLeptond.ex_lost_marker shows a Reset lost otherwise), the bytes written are
       h ++ [NL] ++ flat_map enc_item items ++ tail
   with items the delivered prefix of the plan and tail the delivered part of the ONE frame whose Write failed *)
Theorem C14_source_sender_stream : forall cfg cam flag power start wf h,
  header_of cfg = Some h -> wok wf = true -> wok (tl wf) = true ->
  ignored_ok (main_plan cam flag power start) (tl (tl wf)) = true ->
  let s := sent (main_plan cam flag power start) (tl (tl wf)) in
  List.concat (sender_chunks cfg cam flag power start wf) = h ++ [NL] ++ flat_map enc_item (fst s) ++ snd s.
Proof. exact sender_stream. Qed.

Theorem C14_source_sender_items_prefix : forall items wf, exists rest, items = fst (sent items wf) ++ rest.
Proof. exact sent_prefix. Qed.

(* no frame is sent twice or out of order: the plan's frames are a subsequence of what the camera yielded *)
Theorem C14_source_sender_once : forall power cam flag start,
  subseq (item_frames (main_plan cam flag power start)) (cam_frames cam).
Proof. exact plan_frames_subseq. Qed.

(* END TO END on the translated code of BOTH daemons.  The chunks the translated sender wrote, re-segmented in
   any way (cs), fed to the translated receiver (handleConn): its Reset / Process log is exactly the sender's
   delivered items.  Hypotheses, all explicit: the configuration's integers are Go integers; GetModel and
   yaml.Marshal succeed with text h satisfying header_text_ok; the header's two Writes succeed and no marker's
   Write fails; THE GUARD of the in-band marker ([cam_ok]: every frame the camera yields has the frame size and
   does NOT begin with the marker bytes - C14_inband_marker_refuted); frame size >= 5; the codec round-trips
   the field map (dec h = the map of [sender_specs]) and the receiver decodes with it; the recorder knows the
   camera (frameParser), fps and the two log intervals are non-zero (handleConn's own side conditions) *)
Theorem C14_source_end_to_end : forall scfg0 cam flag power start wf h m dec ym,
  scfg_ok scfg0 ->
  s_model scfg0 = Some m -> s_encode scfg0 (sender_specs scfg0 m) = Some h ->
  header_text_ok h = true ->
  wok wf = true -> wok (tl wf) = true ->
  ignored_ok (main_plan cam flag power start) (tl (tl wf)) = true ->
  cam_ok (s_fs scfg0) cam = true ->
  (5 <= s_fs scfg0)%nat ->
  dec h = Some ym -> (forall k, ym k = ymap_of (sender_specs scfg0 m) k) ->
  forall ccfg script i1 i2 fuelS,
  (List.length cam + List.length power < fuelS)%nat ->
  (forall t, c_decode ccfg t = option_map (fun y => hdr_of_fields (fields_of y)) (dec t)) ->
  parser_of FLIR m <> 0 -> s_fps scfg0 <> 0 -> i1 <> 0 -> i2 <> 0 ->
  spost (src_sender scfg0 fuelS (sender_init cam flag power start wf)) (fun rs ws =>
    rs = Some (sender_result scfg0 cam flag power start wf) /\
    forall cs fuelR, List.concat cs = List.concat (sw_out ws) -> (S (total_len cs) <= fuelR)%nat ->
      post (src_conn ccfg fuelR (conn_init cs script i1 i2)) (fun r wr =>
        items_of (cw_log wr) = fst (sent (main_plan cam flag power start) (tl (tl wf))) /\
        (r = Some ERR_EOF \/ r = Some ERR_UEOF) /\ cw_in wr = [])).
Proof. exact end_to_end. Qed.

(* ... and the translated ReadHeaderInfo, run on the same chunks, hands the recorder exactly the eight values
   sendCameraSpecs put into the map, consuming nothing beyond the blank line *)
Theorem C14_source_end_to_end_header : forall scfg0 cam flag power start wf h m dec ym,
  scfg_ok scfg0 ->
  s_model scfg0 = Some m -> s_encode scfg0 (sender_specs scfg0 m) = Some h ->
  header_text_ok h = true ->
  wok wf = true -> wok (tl wf) = true ->
  ignored_ok (main_plan cam flag power start) (tl (tl wf)) = true ->
  cam_ok (s_fs scfg0) cam = true ->
  (5 <= s_fs scfg0)%nat ->
  dec h = Some ym -> (forall k, ym k = ymap_of (sender_specs scfg0 m) k) ->
  forall fuelS, (List.length cam + List.length power < fuelS)%nat ->
  spost (src_sender scfg0 fuelS (sender_init cam flag power start wf)) (fun rs ws =>
    forall cs fuelR, List.concat cs = List.concat (sw_out ws) -> (S (total_len cs) <= fuelR)%nat ->
      hpost (src_header dec fuelR RD (hdr_init cs)) (fun r hw' =>
        List.concat (hw_in hw') =
          flat_map enc_item (fst (sent (main_plan cam flag power start) (tl (tl wf)))) ++
          snd (sent (main_plan cam flag power start) (tl (tl wf))) /\
        hw_decoded hw' = [h] /\
        exists hi, r = Some (hi, 0) /\ hdr_view hw' hi = Some (sender_fields scfg0 m))).
Proof. exact end_to_end_header. Qed.

(* ---- the accept loop of the recorder daemon (runMain in cmd/thermal-recorder/main.go) ----
   translated/MainLoop.v is the Go code as it is now (the tail of runMain from startService on: start-up calls, the
   goroutine, the endless loop os.Remove / net.Listen / Accept / listener.Close / handleConn); model/MainExt.v states
   what the calls that leave it mean (a script of rounds: Accept fails | a camera connects and handleConn returns r;
   net.Listen fails when the script is used up; the socket path is a file; listeners and connections are fresh tokens;
   every call is an entry of a log); proofs/TieMain.v.  handleConn itself is the translated function of
   C14_source_conn above; here: how it is CALLED. *)
From TR Require Import translated.MainLoop model.MainExt proofs.TieMain.

(* the loop as written, for EVERY fuel and every world in which no connection is waiting: it returns - the error of the
   failing Listen - iff the fuel exceeds the script; otherwise the fuel runs out after exactly [fuel] rounds.  Nothing but
   a failing net.Listen ends the loop *)
Theorem C14_source_accept_loop_tie : forall fuel w,
    mw_acc w = None ->
    forever fuel (MainLoop_fn_runMain_tail_loop1 mext) tt w =
      if (List.length (mw_its w) <? fuel)%nat
      then Ok (Some (Zpos (mw_fin w))) (after_fin (after_iters w (mw_its w)))
      else Ok None (after_iters w (firstn fuel (mw_its w))).
Proof. exact tie_loop. Qed.

(* a full run from startService on: result and log are [daemon_result] / [daemon_log] - the start-up calls, then per
   round of the script [iter_log], then the Remove and the failing Listen *)
Theorem C14_source_accept_loop_run : forall fuel start host clean its fin stale next,
    (List.length its < fuel)%nat ->
    exists w',
      src_main fuel start host clean its fin stale next = Ok (Some (daemon_result start host clean fin)) w' /\
      mw_log w' = daemon_log start host clean its fin next /\
      mw_open w' = daemon_leaks start host clean its next.
Proof. exact main_run. Qed.

Theorem C14_source_accept_loop_log_unfolded : forall its fin n,
    daemon_log None None None its fin n =
      [MStart; MHost; MClean; MSpawn] ++ rounds_log n its ++ [MRemove; MListenFail (Zpos fin)] /\
    (forall it r, rounds_log n (it :: r) = iter_log n it ++ rounds_log (n + iter_toks it) r) /\
    (forall e, iter_log n (ItAcceptFail e) = [MRemove; MListen n; MAcceptFail n (Zpos e)]) /\
    (forall r, iter_log n (ItServe r) = [MRemove; MListen n; MAccept n (n + 1); MClose n; MHandle (n + 1) r None]).
Proof. exact daemon_log_unfolded. Qed.

(* while the script lasts the loop does not return, whatever handleConn and Accept answered *)
Theorem C14_source_accept_loop_never_returns : forall fuel its fin stale next,
    (fuel <= List.length its)%nat ->
    exists w',
      src_main fuel None None None its fin stale next = Ok None w' /\
      mw_log w' = [MStart; MHost; MClean; MSpawn] ++ rounds_log next (firstn fuel its) /\
      mw_its w' = skipn fuel its.
Proof. exact main_run_short. Qed.

(* connections are served strictly one after the other: EVERY handleConn entry is immediately preceded by its own
   Remove, Listen l, Accept l c, Close l - in that order, c the connection it is given - and while it ran no listener was
   bound to the socket path (the listener is closed BEFORE the connection is handled: no second camera can connect) *)
Theorem C14_source_accept_loop_handle_preceded : forall start host clean its fin n pre c r reach post,
    daemon_log start host clean its fin n = pre ++ MHandle c r reach :: post ->
    reach = None /\ exists pre' l, pre = pre' ++ [MRemove; MListen l; MAccept l c; MClose l].
Proof. exact handle_preceded. Qed.

(* whatever handleConn returns, the loop goes on: the handleConn entries, in order, are exactly the serving rounds of the
   script with their results *)
Theorem C14_source_accept_loop_handled_all : forall its fin n,
    handled (daemon_log None None None its fin n) = serves its.
Proof. exact handled_all. Qed.

(* a failed Accept serves nothing and listens again: Remove, Listen, the failed Accept, then the Remove and the Listen of
   the next round (or the failing Listen that ends the daemon).  The listener of the failed round is NOT closed *)
Theorem C14_source_accept_loop_accept_fails : forall p1 e p2 fin n,
    let l := rounds_next n p1 in
    daemon_log None None None (p1 ++ ItAcceptFail e :: p2) fin n =
      [MStart; MHost; MClean; MSpawn] ++ rounds_log n p1 ++
      [MRemove; MListen l; MAcceptFail l (Zpos e)] ++
      rounds_log (l + 1) p2 ++ [MRemove; MListenFail (Zpos fin)] /\
    exists x post,
      rounds_log (l + 1) p2 ++ [MRemove; MListenFail (Zpos fin)] = MRemove :: x :: post /\
      (x = MListen (l + 1) \/ x = MListenFail (Zpos fin)).
Proof. exact accept_fail_round. Qed.

(* observation (not a violation of C14): the listeners never closed are those whose Accept failed - one file
   descriptor per failing round; their socket file is removed by the next round, so nothing can connect to them *)
Theorem C14_source_accept_loop_leaks : forall its n,
    List.length (daemon_leaks None None None its n) = accept_fails its.
Proof. exact daemon_leaks_count. Qed.

Theorem C14_source_accept_loop_no_bad_call : forall start host clean its fin n,
    bad_calls (daemon_log start host clean its fin n) = [].
Proof. exact daemon_log_no_bad. Qed.

(* non-vacuity (evaluated): a stale socket file; Accept fails once, two cameras are served (handleConn returns an error,
   then nil), Listen fails; and a run cut by the fuel after two rounds *)
Example C14_source_accept_loop_ex :
  show_main (src_main 10 None None None [ItAcceptFail 5; ItServe 77; ItServe 0] 9 true 100) =
    Some (Some 9,
          [MStart; MHost; MClean; MSpawn;
           MRemove; MListen 100; MAcceptFail 100 5;
           MRemove; MListen 101; MAccept 101 102; MClose 101; MHandle 102 77 None;
           MRemove; MListen 103; MAccept 103 104; MClose 103; MHandle 104 0 None;
           MRemove; MListenFail 9],
          [100]) /\
  show_main (src_main 2 None None None [ItServe 1; ItServe 2; ItServe 3] 9 false 1) =
    Some (None, [MStart; MHost; MClean; MSpawn;
                 MRemove; MListen 1; MAccept 1 2; MClose 1; MHandle 2 1 None;
                 MRemove; MListen 3; MAccept 3 4; MClose 3; MHandle 4 2 None], []).
Proof. exact (conj ex_main ex_main_fuel). Qed.
