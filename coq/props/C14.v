(* Property C14 - frame socket: header round-trips, frames delivered once, 'clear' resets.
   Proof on a reader model over chunked byte streams + static agreement of the two daemons'
   constants - partial: the YAML codec (yaml.v1) is not modelled; what the theorems assume of the
   encoder's output (header_text_ok: ends with a newline, contains no blank line) and the
   decode-after-encode identity are validated against the real codec on every run. *)
From Coq Require Import String List ZArith Bool Arith.
From TR Require Import Extracted model.Socket proofs.SocketProofs.
Import ListNotations.
Close Scope string_scope.
Open Scope list_scope.
Open Scope Z_scope.

(* however the byte stream is split into reads, the result is that of the unsplit stream *)
Theorem C14_chunking_irrelevant : forall fs cs,
    run_conn fs cs = run_conn fs [List.concat cs].
Proof. exact chunking_irrelevant. Qed.

(* for every header text the camera daemon's encoder can produce, every frame size >= 5, every
   list of frames (of that size, not beginning with the marker bytes) and markers, and every
   segmentation into reads: the header text is recovered exactly (nothing beyond the blank line
   is consumed), every frame is delivered exactly once and in order, every marker is a reset -
   alignment is never lost *)
Theorem C14_stream_roundtrip : forall fs h items cs,
    (5 <= fs)%nat -> header_text_ok h = true -> forallb (item_ok fs) items = true ->
    List.concat cs = h ++ [NL] ++ flat_map enc_item items ->
    run_conn fs cs = mkCR (Some h) items.
Proof. exact stream_roundtrip. Qed.

(* a connection closed in the middle of a frame loses only that partial frame *)
Theorem C14_stream_roundtrip_partial : forall fs h items tail cs,
    (5 <= fs)%nat -> header_text_ok h = true -> forallb (item_ok fs) items = true ->
    (List.length tail < fs)%nat -> negb (bytes_eqb (firstn PROBE tail) MARKER) = true ->
    List.concat cs = h ++ [NL] ++ flat_map enc_item items ++ tail ->
    run_conn fs cs = mkCR (Some h) items.
Proof. exact stream_roundtrip_partial. Qed.

(* a header cut short by the connection closing - at ANY truncation point, any segmentation -
   yields an error, never a (partial) camera description, and does not hang (the model's reader
   terminates on every input) *)
Theorem C14_truncated_header_errors : forall fs h p q cs,
    header_text_ok h = true -> h ++ [NL] = p ++ q -> q <> [] ->
    List.concat cs = p ->
    cr_header (run_conn fs cs) = None.
Proof. exact truncated_header_errors. Qed.

(* both daemons agree on the marker and on the header keys (regenerated from
   cmd/leptond/main.go, cmd/thermal-recorder/main.go, headers/headers.go, headers/headerinfo.go
   on every run); the model's marker and probe length are the recorder's *)
Theorem C14_marker_agreement :
  leptond_clear_marker = recorder_clear_marker /\
  MARKER = recorder_clear_marker /\
  Z.of_nat PROBE = recorder_probe_len /\
  Z.of_nat (List.length recorder_clear_marker) = recorder_probe_len /\
  forallb (fun k => existsb (String.eqb k) header_keys_read) header_keys_sent = true.
Proof. repeat split; vm_compute; reflexivity. Qed.

(* KNOWN FINDING: the marker is in-band.  A frame that begins with the bytes "clear" is taken
   for a marker and alignment is lost for the rest of the connection - the guard in item_ok is
   necessary (possible for Boson frames: two border pixels 0x6c63, 0x6165 and a low byte 0x72). *)
Theorem C14_inband_marker_refuted :
  exists fs h items,
    (5 <= fs)%nat /\ header_text_ok h = true /\
    Forall (fun i => match i with IFrame b => List.length b = fs | IClear => True end) items /\
    run_conn fs [h ++ [NL] ++ flat_map enc_item items] <> mkCR (Some h) items.
Proof. exact inband_marker_refuted. Qed.
