(* Property C15 - the dynamic threshold tracks the background mean within its configured
   bounds. *)
From Coq Require Import String.
From Coq Require Import List ZArith Bool.
From TR Require Import model.Ring model.Detector model.DetSpec proofs.DetC15 proofs.FloatFacts.
(* constants and wiring read from the Go sources on every run *)
From TR Require Import proofs.FactsDet.
From TR Require Import model.DetExt proofs.TieDet proofs.TieDetFloat.
Import ListNotations.
Open Scope Z_scope.

(* For every stream (FFC events, resets anywhere) of frames with 16-bit pixel values and every
   dynamic-threshold configuration with a non-empty interior, at most 2^20 pixels, bounds that
   are unset (0) or set, and ordered when both are set - the scene mean below, inside or above
   the range - S15 (model/DetSpec.v) holds of the background and threshold after every event:
   (a) after a non-FFC frame the background is nowhere warmer than that frame on the interior;
   (b) every border pixel of the background equals its nearest interior pixel;
   (c) at the first non-FFC frame after an FFC-affected frame and after start-up / a reset the
       interior background equals the frame (re-seeded);
   (d) whenever the threshold changes it is within 1 of the exact interior mean of the
       background limited to [temp-thresh-min, temp-thresh-max] (an unset bound is ignored),
       and inside the bounds that are set; FFC frames and resets leave it unchanged.
   The float32 / float64 facts this rests on are proved in proofs/FloatFacts.v through Flocq. *)
Theorem C15_background_and_threshold : forall c evs,
    wf_cfg c -> d_dynamic c = true -> wf_stream c evs ->
    S15 c evs (dobs_run c (dinit c) evs) = true.
Proof. exact (S15_holds_partial wt_ok wt_ok_zero wt_ok_step f32_sub_not_below mean_threshold_bound). Qed.

(* the same statement with the IEEE-754 facts as explicit hypotheses (axiom-free) *)
Theorem C15_partial : forall (wt : f32 -> Prop),
    wt f32_zero -> (forall w, wt w -> wt (f32_add w f32_tenth)) ->
    (forall nw bg w, pix_ok nw -> pix_ok bg -> wt w ->
       Floats.SpecFloat.SFltb (f32_sub (f32_of_Z nw) w) (f32_of_Z bg) = false -> bg <= nw) ->
    (forall vs tmin tmax, vs <> [] -> (length vs <= 1048576)%nat -> Forall pix_ok vs -> pix_ok tmin -> pix_ok tmax ->
       (tmax = 0 \/ tmin <= tmax) ->
       let t := calc_thresh_gen tmin tmax (mean_fold vs) in
       let m := clampZ tmin tmax (zsum vs / Z.of_nat (length vs)) in
       Z.abs (t - m) <= 1 /\ (tmin = 0 \/ tmin <= t) /\ (tmax = 0 \/ t <= tmax)) ->
    forall c evs, wf_cfg c -> d_dynamic c = true -> wf_stream c evs ->
    S15 c evs (dobs_run c (dinit c) evs) = true.
Proof. exact S15_holds_partial. Qed.

(* non-vacuity: 3x3, edge 0, bounds [105, 120], preview 0: seeding gives the clamped mean;
   a colder frame lowers the background at once, a warmer one does not (weights) *)
Definition cfg := mkD 3 3 0 1 true 5 1 false true 0 105 120 0.
Definition fr (v : Z) := DFrame (mkF [[v; v; v]; [v; v; v]; [v; v; v]] 100000000000 0).
Example C15_ex :
  map snd (drun cfg (dinit cfg) [fr 100; fr 110; fr 90; fr 130; DReset; fr 130]) = [105; 105; 105; 105; 105; 120] /\
  map (fun o => gget (do_bg o) 1 1) (dobs_run cfg (dinit cfg) [fr 100; fr 110; fr 90; fr 130; DReset; fr 130]) = [100; 100; 90; 90; 90; 130].
Proof. vm_compute. auto. Qed.

(* ---- source tie: motion/motion.go as it is in /repo now ----
   coq/translated/MotionDetector.v is regenerated from the Go source on every run (all 14 functions
   of the detector, pixel loops included); model/DetExt.v gives the calls that leave it - frame
   pixels and telemetry by handle, the float32 weights, every floating-point operation (computed
   with SpecFloat as in the model), debug tracker and logging - their meaning.  For every
   configuration with a non-empty interior and a compare gap >= 1, every stream of frames of the
   configured resolution with 16-bit pixels, and resets: after every event the translated detector
   has exactly the verdict, threshold, background-frame count, background and weights of the model
   the theorems above are about.  Two decidable side conditions on the model's own run: no weight
   exceeds MaxFloat32 (the Go code's clamp, dead code by rounding, is not in the model) and the
   threshold stays a 16-bit value (the Go field is a uint16; shown for all grids up to 2^20 pixels
   in props/C15.v).  A change to motion.go that changes what the detector computes on some stream
   breaks this theorem, whether or not a generated input reaches it. *)
Theorem C15_source_tie : forall c evs,
    dcfg_ok c -> Forall (event_ok c) evs ->
    weights_bounded_from c (dinit c) evs = true ->
    thresh_bounded_from c (dinit c) evs = true ->
    map (dproj c) (src_dtrace c evs) = model_dtrace c (dinit c) evs.
Proof. exact tie_detector. Qed.

(* the 16-bit condition discharged (through the float facts of proofs/FloatFacts.v, hence with the
   standard library's classical real-number axioms): grids of at most 2^20 pixels *)
Theorem C15_source_tie_u16 : forall c evs,
    dcfg_ok c -> (d_w c * d_h c <= 1048576)%nat ->
    Forall (event_ok c) evs -> weights_bounded_from c (dinit c) evs = true ->
    map (dproj c) (src_dtrace c evs) = model_dtrace c (dinit c) evs.
Proof. exact tie_detector_u16. Qed.

(* ---- source tie: where the motion thresholds come from, as the Go sources are now ----
   coq/translated/ConfMotion.v (motion/motionconfig.go: NewConfig, validateConfig) and Config.LoadMotionConfig in
   coq/translated/Config.v (cmd/thermal-recorder/config.go), regenerated on every run; model/ConfExt.v is the go-config
   library as far as they use it (the library's defaults PER CAMERA MODEL are a parameter: [d_motion L model]);
   proofs/TieConf.v, axiom-free.  For every library, world (0 < w_next), Config, camera model: *)
From TR Require Import translated.ConfMotion translated.ConfRecorder translated.Config model.ConfExt proofs.TieConf.

(* motion.validateConfig is EMPTY: nil, no effect, for whatever it is given.  In particular nothing relates
   temp-thresh-min to temp-thresh-max: a file with both set and max < min is accepted (confirmed on the real code),
   which is exactly the hypothesis "ordered when both are set" of C15_background_and_threshold above - the
   configuration code does not establish it. *)
Theorem C15_source_config_validate_is_empty : forall (W : Type) (ext : string -> list GoSem.arg -> W -> Z * W) (t : Z) (w : W),
  ConfMotion_fn_validateConfig ext t w = GoSem.Ok 0 w.
Proof. exact tie_validateConfig. Qed.

(* motion.NewConfig(conf, model): the defaults of THAT model, then the thermal-motion keys of the file over them;
   a section that fails to decode: that error and nil *)
Theorem C15_source_config_motion_NewConfig : forall (L : clib) (conf model : Z) (f : cfile) (w : ConfExt.cworld),
  w_heap w conf = OConf f ->
  conf < w_next w ->
  cpost (ConfMotion_fn_NewConfig (ConfExt.cext L) conf model w)
    (fun (r : Z * Z) (w' : ConfExt.cworld) =>
     let e := fault_at 0 (w_faults w) in
     extends w w' (EUnmarshal conf SMotion (w_next w) e :: nil) /\
     w_reads w' = w_reads w /\
     w_faults w' = tl (w_faults w) /\
     w_next w' = w_next w + 1 /\
     (if e =? 0 then r = (w_next w, 0) /\ w_heap w' (w_next w) = OSect SMotion (motion_vals L model f) else r = (0, e))).
Proof. exact tie_motion_NewConfig. Qed.

(* every motion key at once (dynamic-threshold, temp-thresh, temp-thresh-min / -max, delta-thresh, count-thresh,
   frame-compare-gap, use-one-diff-only, trigger-frames, warmer-only, edge-pixels, verbose - k ranges over all
   fields): the file's key when the section and the key are present, the GIVEN model's default otherwise *)
Theorem C15_source_config_motion_keys : forall (L : clib) (model : Z) (f : cfile) (k : string),
  motion_vals L model f k =
  match f SMotion with
  | Some p => match p k with Some v => v | None => d_motion L model k end
  | None => d_motion L model k
  end.
Proof. exact motion_vals_eq. Qed.

(* LoadMotionConfig(model), whole: a fresh goconfig.New of c.ConfigDir; on success c.Motion - and nothing else of c -
   is replaced by [motion_vals L model f], f the file AS IT IS THEN; when goconfig.New or the decoding of the
   thermal-motion section fails the error is returned and c is returned as it was *)
Theorem C15_source_config_load : forall (L : clib) (c : Config) (model : Z) (w : ConfExt.cworld),
  0 < w_next w ->
  cpost (src_load L c model w)
    (fun (r : Config * Z) (w' : ConfExt.cworld) =>
     exists evs : list ConfExt.cev,
       extends w w' evs /\ bad_calls evs = nil /\ w_reads w' = tl (w_reads w) /\
       (exists tok err : Z, hd_error evs = Some (ENew (Config_ConfigDir c) tok err)) /\
       match load_outcome (w_reads w) (w_faults w) with
       | PNewErr e => r = (c, e) /\ e <> 0 /\ sections_read evs = nil /\ w_faults w' = w_faults w
       | PDecodeErr _ e => r = (c, e) /\ e <> 0 /\ sections_read evs = SMotion :: nil /\ w_faults w' = tl (w_faults w)
       | POk =>
           snd r = 0 /\ sections_read evs = SMotion :: nil /\ w_faults w' = tl (w_faults w) /\
           (exists tok : Z,
              fst r = Config_set_Motion tok c /\
              w_next w <= tok < w_next w' /\
              match w_reads w with
              | inr f :: _ => w_heap w' tok = OSect SMotion (motion_vals L model f)
              | _ => False
              end)
       | _ => False
       end).
Proof. exact tie_LoadMotionConfig. Qed.

(* a camera that reconnects as another model: after a second LoadMotionConfig every motion field is the key of the
   file as it is then or the SECOND model's default - m1 and f1 do not occur in what is left *)
Theorem C15_source_config_reload : forall (L : clib) (c : Config) (m1 m2 : Z) (f1 f2 : cfile) (rest : list (Z + cfile)) (w : ConfExt.cworld),
  0 < w_next w ->
  w_reads w = inr f1 :: inr f2 :: rest ->
  fault_at 0 (w_faults w) = 0 ->
  fault_at 1 (w_faults w) = 0 ->
  cpost (GoSem.bind (src_load L c m1) (fun r : Config * Z => src_load L (fst r) m2) w)
    (fun (r : Config * Z) (w' : ConfExt.cworld) =>
     snd r = 0 /\
     fst r = Config_set_Motion (Config_Motion (fst r)) c /\
     w_heap w' (Config_Motion (fst r)) = OSect SMotion (motion_vals L m2 f2) /\
     (forall k : string,
      field_of w' (Config_Motion (fst r)) k =
      match f2 SMotion with
      | Some p => match p k with Some v => v | None => d_motion L m2 k end
      | None => d_motion L m2 k
      end)).
Proof. exact tie_Load_twice. Qed.

(* FINDING, second half (main.go:216 drops LoadMotionConfig's result): when the reload FAILS the first model's motion
   section stays - a lepton3 that follows a lepton3.5 on the same process is then judged with delta-thresh 200 and
   temp-thresh 28000 (reproduced on the real code) *)
Theorem C15_source_config_reload_failed : forall (L : clib) (c : Config) (m1 m2 : Z) (f1 : cfile) (rest : list (Z + cfile)) (w : ConfExt.cworld),
  0 < w_next w ->
  w_reads w = inr f1 :: rest ->
  fault_at 0 (w_faults w) = 0 ->
  load_outcome rest (tl (w_faults w)) <> POk ->
  cpost (GoSem.bind (src_load L c m1) (fun r : Config * Z => src_load L (fst r) m2) w)
    (fun (r : Config * Z) (w' : ConfExt.cworld) =>
     snd r <> 0 /\ w_heap w' (Config_Motion (fst r)) = OSect SMotion (motion_vals L m1 f1)).
Proof. exact tie_Load_then_failed_Load. Qed.

(* evaluated with the library's numbers: lepton3.5 then lepton3, the thermal-motion section gone in between *)
Example C15_source_config_example :
  observe (GoSem.bind (GoSem.bind (src_parse EXL 7) (fun r => src_load EXL (fst r) MODEL35)) (fun r => src_load EXL (fst r) MODEL3)
                (w_init [inr ex_file; inr ex_file; inr ex_file2] [])) =
  Some (0, [42; 103; 102; 101; 200; 20; 600; 5; 1; -36; 1726362; -36; 0; 1; 600000000000; 2900; 50; 2],
        [SRecorder; SLocation; SWindows; SThrottler; SLocation; SRecorder; SLepton; SDevice; SMotion; SMotion], []).
Proof. exact ex_reload. Qed.

From TR Require Import proofs.Bridges.

(* ---- the detector is fed by motion/motionprocessor.go as it is now (proofs/TieProc.v, restated in proofs/Bridges.v):
   on every history the translated processor makes exactly the model's calls - every accepted frame reaches Detect exactly
   once, inside or outside the recording window, recording or not; a bad frame never does *)
Theorem C15_source_processor_feeds_detector : BProc.processor_source_tie_stmt.
Proof. exact BProc.processor_source_tie. Qed.
