(* Property C15 - the dynamic threshold tracks the background mean within its configured
   bounds. *)
From Coq Require Import List ZArith Bool.
From TR Require Import model.Ring model.Detector model.DetSpec proofs.DetC15 proofs.FloatFacts.
(* constants and wiring read from the Go sources on every run *)
From TR Require Import proofs.FactsDet.
From TR Require Import model.DetExt proofs.TieDet proofs.TieDetFloat.
Import ListNotations.
Open Scope Z_scope.

(* For every stream (FFC events, resets anywhere) of frames with 16-bit pixel values and every
   dynamic-threshold configuration with a non-empty interior, at most 2^20 pixels, bounds that
   are unset (0) or set, and ordered when both are set - the scene mean below, inside or above
   the range - S15 (model/DetSpec.v) holds of the background and threshold after every event:
   (a) after a non-FFC frame the background is nowhere warmer than that frame on the interior;
   (b) every border pixel of the background equals its nearest interior pixel;
   (c) at the first non-FFC frame after an FFC-affected frame and after start-up / a reset the
       interior background equals the frame (re-seeded);
   (d) whenever the threshold changes it is within 1 of the exact interior mean of the
       background limited to [temp-thresh-min, temp-thresh-max] (an unset bound is ignored),
       and inside the bounds that are set; FFC frames and resets leave it unchanged.
   The float32 / float64 facts this rests on are proved in proofs/FloatFacts.v through Flocq. *)
Theorem C15_background_and_threshold : forall c evs,
    wf_cfg c -> d_dynamic c = true -> wf_stream c evs ->
    S15 c evs (dobs_run c (dinit c) evs) = true.
Proof. exact (S15_holds_partial wt_ok wt_ok_zero wt_ok_step f32_sub_not_below mean_threshold_bound). Qed.

(* the same statement with the IEEE-754 facts as explicit hypotheses (axiom-free) *)
Theorem C15_partial : forall (wt : f32 -> Prop),
    wt f32_zero -> (forall w, wt w -> wt (f32_add w f32_tenth)) ->
    (forall nw bg w, pix_ok nw -> pix_ok bg -> wt w ->
       Floats.SpecFloat.SFltb (f32_sub (f32_of_Z nw) w) (f32_of_Z bg) = false -> bg <= nw) ->
    (forall vs tmin tmax, vs <> [] -> (length vs <= 1048576)%nat -> Forall pix_ok vs -> pix_ok tmin -> pix_ok tmax ->
       (tmax = 0 \/ tmin <= tmax) ->
       let t := calc_thresh_gen tmin tmax (mean_fold vs) in
       let m := clampZ tmin tmax (zsum vs / Z.of_nat (length vs)) in
       Z.abs (t - m) <= 1 /\ (tmin = 0 \/ tmin <= t) /\ (tmax = 0 \/ t <= tmax)) ->
    forall c evs, wf_cfg c -> d_dynamic c = true -> wf_stream c evs ->
    S15 c evs (dobs_run c (dinit c) evs) = true.
Proof. exact S15_holds_partial. Qed.

(* non-vacuity: 3x3, edge 0, bounds [105, 120], preview 0: seeding gives the clamped mean;
   a colder frame lowers the background at once, a warmer one does not (weights) *)
Definition cfg := mkD 3 3 0 1 true 5 1 false true 0 105 120 0.
Definition fr (v : Z) := DFrame (mkF [[v; v; v]; [v; v; v]; [v; v; v]] 100000000000 0).
Example C15_ex :
  map snd (drun cfg (dinit cfg) [fr 100; fr 110; fr 90; fr 130; DReset; fr 130]) = [105; 105; 105; 105; 105; 120] /\
  map (fun o => gget (do_bg o) 1 1) (dobs_run cfg (dinit cfg) [fr 100; fr 110; fr 90; fr 130; DReset; fr 130]) = [100; 100; 90; 90; 90; 130].
Proof. vm_compute. auto. Qed.

(* ---- source tie: motion/motion.go as it is in /repo now ----
   coq/translated/MotionDetector.v is regenerated from the Go source on every run (all 14 functions
   of the detector, pixel loops included); model/DetExt.v gives the calls that leave it - frame
   pixels and telemetry by handle, the float32 weights, every floating-point operation (computed
   with SpecFloat as in the model), debug tracker and logging - their meaning.  For every
   configuration with a non-empty interior and a compare gap >= 1, every stream of frames of the
   configured resolution with 16-bit pixels, and resets: after every event the translated detector
   has exactly the verdict, threshold, background-frame count, background and weights of the model
   the theorems above are about.  Two decidable side conditions on the model's own run: no weight
   exceeds MaxFloat32 (the Go code's clamp, dead code by rounding, is not in the model) and the
   threshold stays a 16-bit value (the Go field is a uint16; shown for all grids up to 2^20 pixels
   in props/C15.v).  A change to motion.go that changes what the detector computes on some stream
   breaks this theorem, whether or not a generated input reaches it. *)
Theorem C15_source_tie : forall c evs,
    dcfg_ok c -> Forall (event_ok c) evs ->
    weights_bounded_from c (dinit c) evs = true ->
    thresh_bounded_from c (dinit c) evs = true ->
    map (dproj c) (src_dtrace c evs) = model_dtrace c (dinit c) evs.
Proof. exact tie_detector. Qed.

(* the 16-bit condition discharged (through the float facts of proofs/FloatFacts.v, hence with the
   standard library's classical real-number axioms): grids of at most 2^20 pixels *)
Theorem C15_source_tie_u16 : forall c evs,
    dcfg_ok c -> (d_w c * d_h c <= 1048576)%nat ->
    Forall (event_ok c) evs -> weights_bounded_from c (dinit c) evs = true ->
    map (dproj c) (src_dtrace c evs) = model_dtrace c (dinit c) evs.
Proof. exact tie_detector_u16. Qed.
