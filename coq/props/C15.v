(* Property C15 - the dynamic threshold tracks the background mean within its configured
   bounds. *)
From Coq Require Import List ZArith Bool.
From TR Require Import model.Ring model.Detector model.DetSpec proofs.DetC15 proofs.FloatFacts.
(* constants and wiring read from the Go sources on every run *)
From TR Require Import proofs.FactsDet.
Import ListNotations.
Open Scope Z_scope.

(* For every stream (FFC events, resets anywhere) of frames with 16-bit pixel values and every
   dynamic-threshold configuration with a non-empty interior, at most 2^20 pixels, bounds that
   are unset (0) or set, and ordered when both are set - the scene mean below, inside or above
   the range - S15 (model/DetSpec.v) holds of the background and threshold after every event:
   (a) after a non-FFC frame the background is nowhere warmer than that frame on the interior;
   (b) every border pixel of the background equals its nearest interior pixel;
   (c) at the first non-FFC frame after an FFC-affected frame and after start-up / a reset the
       interior background equals the frame (re-seeded);
   (d) whenever the threshold changes it is within 1 of the exact interior mean of the
       background limited to [temp-thresh-min, temp-thresh-max] (an unset bound is ignored),
       and inside the bounds that are set; FFC frames and resets leave it unchanged.
   The float32 / float64 facts this rests on are proved in proofs/FloatFacts.v through Flocq. *)
Theorem C15_background_and_threshold : forall c evs,
    wf_cfg c -> d_dynamic c = true -> wf_stream c evs ->
    S15 c evs (dobs_run c (dinit c) evs) = true.
Proof. exact (S15_holds_partial wt_ok wt_ok_zero wt_ok_step f32_sub_not_below mean_threshold_bound). Qed.

(* the same statement with the IEEE-754 facts as explicit hypotheses (axiom-free) *)
Theorem C15_partial : forall (wt : f32 -> Prop),
    wt f32_zero -> (forall w, wt w -> wt (f32_add w f32_tenth)) ->
    (forall nw bg w, pix_ok nw -> pix_ok bg -> wt w ->
       Floats.SpecFloat.SFltb (f32_sub (f32_of_Z nw) w) (f32_of_Z bg) = false -> bg <= nw) ->
    (forall vs tmin tmax, vs <> [] -> (length vs <= 1048576)%nat -> Forall pix_ok vs -> pix_ok tmin -> pix_ok tmax ->
       (tmax = 0 \/ tmin <= tmax) ->
       let t := calc_thresh_gen tmin tmax (mean_fold vs) in
       let m := clampZ tmin tmax (zsum vs / Z.of_nat (length vs)) in
       Z.abs (t - m) <= 1 /\ (tmin = 0 \/ tmin <= t) /\ (tmax = 0 \/ t <= tmax)) ->
    forall c evs, wf_cfg c -> d_dynamic c = true -> wf_stream c evs ->
    S15 c evs (dobs_run c (dinit c) evs) = true.
Proof. exact S15_holds_partial. Qed.

(* non-vacuity: 3x3, edge 0, bounds [105, 120], preview 0: seeding gives the clamped mean;
   a colder frame lowers the background at once, a warmer one does not (weights) *)
Definition cfg := mkD 3 3 0 1 true 5 1 false true 0 105 120 0.
Definition fr (v : Z) := DFrame (mkF [[v; v; v]; [v; v; v]; [v; v; v]] 100000000000 0).
Example C15_ex :
  map snd (drun cfg (dinit cfg) [fr 100; fr 110; fr 90; fr 130; DReset; fr 130]) = [105; 105; 105; 105; 105; 120] /\
  map (fun o => gget (do_bg o) 1 1) (dobs_run cfg (dinit cfg) [fr 100; fr 110; fr 90; fr 130; DReset; fr 130]) = [100; 100; 90; 90; 90; 130].
Proof. vm_compute. auto. Qed.
