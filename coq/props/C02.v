(* Property C02 - pre-trigger buffering. *)
From Coq Require Import List ZArith Bool.
From TR Require Import model.Ring model.Processor model.ProcAbs model.ProcSpec proofs.ProcS0102.
(* constants and wiring read from the Go sources on every run *)
From TR Require Import model.ProcExt proofs.TieProcCorollaries.
From TR Require Import proofs.FactsRing proofs.FactsProc.
Import ListNotations.
Open Scope Z_scope.

(* A recording triggered at frame t starts with the ids max (t-(size-1)) (E+1) .. t-1, oldest
   first, followed by t itself, where size = preview*fps + trigger-frames is the ring capacity
   and E the last id handed to the motion sink before (-1 at start-up): the full
   size-1 frames before t unless fewer have been accepted since start-up or since the previous
   recording ended.  Bad frames carry no id, so they can never be among them.  For all
   streams, capacities >= 1, trigger positions (first frames, right after a recording, after
   resets and bad frames). *)
Theorem C02_start_boundary : forall c fm fc ft evs,
    1 <= p_size c -> wf_ids 0 evs ->
    let tr := psteps c fm fc ft evs in
    nowf tr = true ->
    S02 c tr = true.
Proof. intros c fm fc ft evs H1 H2 tr H3. exact (proj2 (S01_S02_hold c fm fc ft evs H1 H2 H3)). Qed.

(* non-vacuity: capacity 4; trigger at frame 1 (only 1 earlier frame exists), then a bad frame
   and a trigger at frame 9 with a full pre-trigger buffer of 3 frames *)
Definition ex_cfg := mkCfg 4 1 2 1 false.
Definition ex_evs := [EFrame 0 false true; EFrame 1 true true; EFrame 2 false true; EFrame 3 false true; EBad;
                      EFrame 4 false true; EFrame 5 false true; EFrame 6 false true; EFrame 7 false true;
                      EFrame 8 false true; EFrame 9 true true].
Example C02_ex :
  map (writes_of SMotion) (map snd (psteps ex_cfg [] [] [] ex_evs)) =
    [[]; [0; 1]; []; []; []; []; []; []; []; []; [6; 7; 8; 9]].
Proof. vm_compute. reflexivity. Qed.

(* ---- source tie: motion/motionprocessor.go and motion/frameloop.go as they are in /repo now ----
   coq/translated/MotionProcessor.v and FrameLoop.v are regenerated from the Go sources on every run;
   model/ProcExt.v gives the calls that leave them (frame parser, detector verdict, recording window,
   the three sinks with their fault scripts, listener, log, mutex) the meaning the model assumes.
   For every configuration with ring capacity >= 1, every event list (valid / bad frames, resets,
   test-recording requests) and every fault script, the translated Process / Reset produce exactly the
   calls and callbacks of the model: the steps the theorems above speak about ARE the steps of the
   translated source.  A change to motionprocessor.go or frameloop.go that alters what the processor
   does on some history breaks this theorem, whether or not a generated input reaches that history. *)
Theorem C02_source_tie : forall c fm fc ft evs,
    1 <= p_size c ->
    src_psteps c fm fc ft evs = psteps c fm fc ft evs.
Proof. exact src_psteps_eq. Qed.
