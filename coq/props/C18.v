(* Property C18 - thermal-writer stores every frame once, in order, in well-formed CPTR files.
   Proof on a transition system of the reader loop and the writer goroutine plus the byte-level
   encoder - partial: real goroutine scheduling and the channel implementation are outside the
   theorem (trusted: Go channels are FIFO, close delivers buffered items first) and are
   exercised by running the real daemon code with GOMAXPROCS 1..16 and a stalled writer. *)
From Coq Require Import List ZArith Bool Arith Permutation String.
From TR Require Import Extracted model.Writer proofs.WriterProofs.
From TR Require Import model.GoSem model.RawExt translated.ThermalRaw proofs.TieRaw.
Import ListNotations.
Close Scope string_scope.
Open Scope list_scope.
Open Scope Z_scope.

(* in every reachable state - every schedule, i.e. every interleaving of reader and writer and
   every lag - each buffer is in exactly one of {spent channel, reader's hand, write queue,
   writer's hand}: a recycled buffer never aliases a frame still waiting to be written, and at
   most nbuf (= 256, inFlight) frames are in flight *)
Theorem C18_ownership : forall nbuf input sched,
    let s := reach nbuf input sched in
    Permutation (ws_spent s ++ hand_list (ws_rhand s) ++ ws_queue s ++ hand_list (ws_whand s)) (seq 0 nbuf) /\
    (List.length (ws_queue s) <= nbuf)%nat.
Proof. exact ownership. Qed.

(* at every moment: frames in the files ++ frames in flight (in order) ++ frames not yet
   arrived = the input: every frame exactly once, in arrival order, byte for byte *)
Theorem C18_prefix : forall nbuf input sched,
    let s := reach nbuf input sched in
    ws_closed s = false ->
    written s ++ whand_pending s ++ map (ws_contents s) (ws_queue s) ++ rhand_pending s ++ ws_input s = input.
Proof. exact conservation. Qed.

Theorem C18_prefix_after_eof : forall nbuf input sched,
    let s := reach nbuf input sched in
    ws_closed s = true ->
    written s ++ whand_pending s ++ map (ws_contents s) (ws_queue s) = input.
Proof. exact conservation_closed. Qed.

(* when the connection ends every maximal run flushes all queued frames before the file is
   closed; the final contents do not depend on the schedule *)
Theorem C18_flush : forall nbuf input sched,
    (1 <= nbuf)%nat ->
    let s := reach nbuf input sched in
    quiescent nbuf s = true ->
    ws_done s = true /\ List.concat (ws_files s) = input /\ ws_cur s = [].
Proof. exact flush. Qed.

(* well-formed CPTR files (magic, version, header fields, then length-prefixed frame sections)
   parse back to exactly their header fields and frames, for all frame sizes below 2^32 *)
Theorem C18_parse_roundtrip : forall hdr frames,
    (List.length hdr <= 255)%nat -> Forall field_ok hdr ->
    Forall (fun fr => Z.of_nat (List.length fr) < 2 ^ 32) frames ->
    parse_file (enc_file hdr frames) = Some (hdr, frames).
Proof. exact parse_roundtrip. Qed.

(* the format constants and the queue depth as the Go sources have them now *)
Theorem C18_constants :
  CPTR_MAGIC = cptr_magic /\ CPTR_VERSION = cptr_version /\ SEC_HEADER = cptr_header_section /\
  SEC_FRAME = cptr_frame_section /\ writer_in_flight = 256.
Proof. repeat split; reflexivity. Qed.

(* ---- source tie: cmd/thermal-writer/thermalraw.go as it is in /repo now ----
   coq/translated/ThermalRaw.v is regenerated from the Go source on every run: newBuilder,
   newThermalRaw, writeFrame, Builder.WriteHeader, Builder.WriteFrame, Builder.Close.  The byte
   slices the code builds itself (append([]byte("CPTR"), version, 'H', byte(numFields)),
   []byte{'F', byte(numFields)}), its integer conversions, the order of its writes and its error
   handling are Gallina; model/RawExt.v states what go-cptv's FieldWriter, the io.WriteCloser, the
   header source and nextFile do (FieldWriter: one (length, code, data) triple per call,
   little-endian integers, a string longer than 255 bytes is refused, the field count is a uint8;
   Write: everything or - on a scripted fault - nothing and an error).
   Side conditions, all explicit: the writer token is one of the world's writers ([oin]), the frame
   token one of its byte slices, [cfg_ok]: model, brand and device name are at most 255 bytes
   (a longer one is silently dropped from the header by the Go code: raw_ex_long_model in
   proofs/TieRaw.v), nextFile succeeds / fails as stated. *)

(* writeFrame, for every fault script: the three writes of model/Writer.v's frame section
   ([SEC_FRAME; 1], the FrameSize field, the data) in order, stopping at the first failing Write,
   whose error is returned; w' differs from w only by those bytes on writer o (and by fresh byte
   slices) *)
Theorem C18_source_frame_writes : forall w o t,
    oin w o -> (Z.to_nat t < List.length (rw_bytes w))%nat ->
    let r := write_seq (rw_faults w) (frame_model_chunks (rbytes w t)) in
    exists w', ThermalRaw_fn_writeFrame rext (mkBuilder o) t w = Ok (fst (fst r)) w' /\
               advanced w w' o (snd (fst r)) (snd r).
Proof. exact tie_writeFrame. Qed.

(* no fault: exactly [enc_frame] of the frame's bytes, for every frame length (the FrameSize field
   holds the length mod 2^32, in the Go code as in the model) *)
Theorem C18_source_frame : forall w o t,
    oin w o -> (Z.to_nat t < List.length (rw_bytes w))%nat -> rw_faults w = [] ->
    exists w', ThermalRaw_fn_writeFrame rext (mkBuilder o) t w = Ok 0 w' /\
               advanced w w' o (enc_frame (rbytes w t)) [].
Proof. exact tie_writeFrame_ok. Qed.

(* newThermalRaw: a fresh writer; the nine header fields of the model ([thermal_raw_header], the
   time stamp in microseconds, Go's truncating division) and the file prologue, in two writes *)
Theorem C18_source_header_writes : forall w t,
    rw_open_fail w = false -> cfg_ok (rw_cfg w) ->
    let o := Z.of_nat (List.length (rw_outs w)) in
    let r := write_seq (rw_faults w) [CPTR_MAGIC ++ [CPTR_VERSION; SEC_HEADER; 9]; enc_fields (raw_header (rw_cfg w) t)] in
    exists w', ThermalRaw_fn_newThermalRaw rext t w =
                 Ok (if fst (fst r) =? 0 then mkBuilder o else mkBuilder 0, fst (fst r)) w' /\
               rw_outs w' = rw_outs w ++ [snd (fst r)] /\ rw_faults w' = snd r /\
               rw_cfg w' = rw_cfg w /\ rw_open_fail w' = false /\
               exists m, rw_bytes w' = rw_bytes w ++ m.
Proof. exact tie_newThermalRaw. Qed.

Theorem C18_source_header : forall w t,
    rw_open_fail w = false -> cfg_ok (rw_cfg w) -> rw_faults w = [] ->
    exists w', ThermalRaw_fn_newThermalRaw rext t w = Ok (mkBuilder (Z.of_nat (List.length (rw_outs w))), 0) w' /\
               rw_outs w' = rw_outs w ++ [enc_header (raw_header (rw_cfg w) t)] /\ rw_faults w' = [] /\
               rw_cfg w' = rw_cfg w /\ rw_open_fail w' = false /\
               exists m, rw_bytes w' = rw_bytes w ++ m.
Proof. exact tie_newThermalRaw_ok. Qed.

Theorem C18_source_open_fail : forall w t,
    rw_open_fail w = true ->
    ThermalRaw_fn_newThermalRaw rext t w = Ok (mkBuilder 0, 1) (with_pending w 1).
Proof. exact tie_newThermalRaw_open_fail. Qed.

(* a whole file - newThermalRaw, then writeFrame for every frame: the bytes are [enc_file], the
   format C18_parse_roundtrip is about, and parse back to the header fields and the frames *)
Theorem C18_source_file : forall c t frames,
    cfg_ok c ->
    exists w', src_raw_file c t frames [] false = Ok 0 w' /\
               rw_outs w' = [enc_file (raw_header c t) frames].
Proof. exact tie_raw_file. Qed.

Theorem C18_source_file_parses : forall c t frames,
    cfg_ok c -> Forall (fun fr => Z.of_nat (List.length fr) < 2 ^ 32) frames ->
    exists w' file, src_raw_file c t frames [] false = Ok 0 w' /\ rw_outs w' = [file] /\
                    parse_file file = Some (raw_header c t, frames).
Proof. exact tie_raw_file_parses. Qed.

(* the two Builder methods on any field writer fw: the section prologue (the field count is the
   writer's uint8 counter: the number of fields mod 256) and the encoded fields [, the data] *)
Theorem C18_source_WriteHeader : forall w o fw,
    oin w o ->
    exists w', Builder_WriteHeader rext (mkBuilder o) fw w =
                 Ok (mkBuilder o, fst (fst (write_seq (rw_faults w) (header_chunks w fw)))) w' /\
               advanced w w' o (snd (fst (write_seq (rw_faults w) (header_chunks w fw))))
                        (snd (write_seq (rw_faults w) (header_chunks w fw))).
Proof. exact tie_WriteHeader_gen. Qed.

Theorem C18_source_WriteFrame : forall w o fw t,
    oin w o -> (Z.to_nat t < List.length (rw_bytes w))%nat ->
    exists w', Builder_WriteFrame rext (mkBuilder o) fw t w =
                 Ok (mkBuilder o, fst (fst (write_seq (rw_faults w) (frame_chunks w fw t)))) w' /\
               advanced w w' o (snd (fst (write_seq (rw_faults w) (frame_chunks w fw t))))
                        (snd (write_seq (rw_faults w) (frame_chunks w fw t))).
Proof. exact tie_WriteFrame_gen. Qed.
