(* Property C18 - thermal-writer stores every frame once, in order, in well-formed CPTR files.
   Proof on a transition system of the reader loop and the writer goroutine plus the byte-level
   encoder - partial: real goroutine scheduling and the channel implementation are outside the
   theorem (trusted: Go channels are FIFO, close delivers buffered items first) and are
   exercised by running the real daemon code with GOMAXPROCS 1..16 and a stalled writer. *)
From Coq Require Import List ZArith Bool Arith Permutation String.
From TR Require Import Extracted model.Writer proofs.WriterProofs.
From TR Require Import model.GoSem model.RawExt translated.ThermalRaw proofs.TieRaw.
From TR Require Import model.BufExt translated.BufferedFile proofs.TieBuf.
Import ListNotations.
Close Scope string_scope.
Open Scope list_scope.
Open Scope Z_scope.

(* in every reachable state - every schedule, i.e. every interleaving of reader and writer and
   every lag - each buffer is in exactly one of {spent channel, reader's hand, write queue,
   writer's hand}: a recycled buffer never aliases a frame still waiting to be written, and at
   most nbuf (= 256, inFlight) frames are in flight *)
Theorem C18_ownership : forall nbuf input sched,
    let s := reach nbuf input sched in
    Permutation (ws_spent s ++ hand_list (ws_rhand s) ++ ws_queue s ++ hand_list (ws_whand s)) (seq 0 nbuf) /\
    (List.length (ws_queue s) <= nbuf)%nat.
Proof. exact ownership. Qed.

(* at every moment: frames in the files ++ frames in flight (in order) ++ frames not yet
   arrived = the input: every frame exactly once, in arrival order, byte for byte *)
Theorem C18_prefix : forall nbuf input sched,
    let s := reach nbuf input sched in
    ws_closed s = false ->
    written s ++ whand_pending s ++ map (ws_contents s) (ws_queue s) ++ rhand_pending s ++ ws_input s = input.
Proof. exact conservation. Qed.

Theorem C18_prefix_after_eof : forall nbuf input sched,
    let s := reach nbuf input sched in
    ws_closed s = true ->
    written s ++ whand_pending s ++ map (ws_contents s) (ws_queue s) = input.
Proof. exact conservation_closed. Qed.

(* when the connection ends every maximal run flushes all queued frames before the file is
   closed; the final contents do not depend on the schedule *)
Theorem C18_flush : forall nbuf input sched,
    (1 <= nbuf)%nat ->
    let s := reach nbuf input sched in
    quiescent nbuf s = true ->
    ws_done s = true /\ List.concat (ws_files s) = input /\ ws_cur s = [].
Proof. exact flush. Qed.

(* well-formed CPTR files (magic, version, header fields, then length-prefixed frame sections)
   parse back to exactly their header fields and frames, for all frame sizes below 2^32 *)
Theorem C18_parse_roundtrip : forall hdr frames,
    (List.length hdr <= 255)%nat -> Forall field_ok hdr ->
    Forall (fun fr => Z.of_nat (List.length fr) < 2 ^ 32) frames ->
    parse_file (enc_file hdr frames) = Some (hdr, frames).
Proof. exact parse_roundtrip. Qed.

(* the format constants and the queue depth as the Go sources have them now *)
Theorem C18_constants :
  CPTR_MAGIC = cptr_magic /\ CPTR_VERSION = cptr_version /\ SEC_HEADER = cptr_header_section /\
  SEC_FRAME = cptr_frame_section /\ writer_in_flight = 256.
Proof. repeat split; reflexivity. Qed.

(* ---- source tie: cmd/thermal-writer/thermalraw.go as it is in /repo now ----
   coq/translated/ThermalRaw.v is regenerated from the Go source on every run: newBuilder,
   newThermalRaw, writeFrame, Builder.WriteHeader, Builder.WriteFrame, Builder.Close.  The byte
   slices the code builds itself (append([]byte("CPTR"), version, 'H', byte(numFields)),
   []byte{'F', byte(numFields)}), its integer conversions, the order of its writes and its error
   handling are Gallina; model/RawExt.v states what go-cptv's FieldWriter, the io.WriteCloser, the
   header source and nextFile do (FieldWriter: one (length, code, data) triple per call,
   little-endian integers, a string longer than 255 bytes is refused, the field count is a uint8;
   Write: everything or - on a scripted fault - nothing and an error).
   Side conditions, all explicit: the writer token is one of the world's writers ([oin]), the frame
   token one of its byte slices, [cfg_ok]: model, brand and device name are at most 255 bytes
   (a longer one is silently dropped from the header by the Go code: raw_ex_long_model in
   proofs/TieRaw.v), nextFile succeeds / fails as stated. *)

(* writeFrame, for every fault script: the three writes of model/Writer.v's frame section
   ([SEC_FRAME; 1], the FrameSize field, the data) in order, stopping at the first failing Write,
   whose error is returned; w' differs from w only by those bytes on writer o (and by fresh byte
   slices) *)
Theorem C18_source_frame_writes : forall w o t,
    oin w o -> (Z.to_nat t < List.length (rw_bytes w))%nat ->
    let r := write_seq (rw_faults w) (frame_model_chunks (rbytes w t)) in
    exists w', ThermalRaw_fn_writeFrame rext (mkBuilder o) t w = Ok (fst (fst r)) w' /\
               advanced w w' o (snd (fst r)) (snd r).
Proof. exact tie_writeFrame. Qed.

(* no fault: exactly [enc_frame] of the frame's bytes, for every frame length (the FrameSize field
   holds the length mod 2^32, in the Go code as in the model) *)
Theorem C18_source_frame : forall w o t,
    oin w o -> (Z.to_nat t < List.length (rw_bytes w))%nat -> rw_faults w = [] ->
    exists w', ThermalRaw_fn_writeFrame rext (mkBuilder o) t w = Ok 0 w' /\
               advanced w w' o (enc_frame (rbytes w t)) [].
Proof. exact tie_writeFrame_ok. Qed.

(* newThermalRaw: a fresh writer; the nine header fields of the model ([thermal_raw_header], the
   time stamp in microseconds, Go's truncating division) and the file prologue, in two writes *)
Theorem C18_source_header_writes : forall w t,
    rw_open_fail w = false -> cfg_ok (rw_cfg w) ->
    let o := Z.of_nat (List.length (rw_outs w)) in
    let r := write_seq (rw_faults w) [CPTR_MAGIC ++ [CPTR_VERSION; SEC_HEADER; 9]; enc_fields (raw_header (rw_cfg w) t)] in
    exists w', ThermalRaw_fn_newThermalRaw rext t w =
                 Ok (if fst (fst r) =? 0 then mkBuilder o else mkBuilder 0, fst (fst r)) w' /\
               rw_outs w' = rw_outs w ++ [snd (fst r)] /\ rw_faults w' = snd r /\
               rw_cfg w' = rw_cfg w /\ rw_open_fail w' = false /\
               exists m, rw_bytes w' = rw_bytes w ++ m.
Proof. exact tie_newThermalRaw. Qed.

Theorem C18_source_header : forall w t,
    rw_open_fail w = false -> cfg_ok (rw_cfg w) -> rw_faults w = [] ->
    exists w', ThermalRaw_fn_newThermalRaw rext t w = Ok (mkBuilder (Z.of_nat (List.length (rw_outs w))), 0) w' /\
               rw_outs w' = rw_outs w ++ [enc_header (raw_header (rw_cfg w) t)] /\ rw_faults w' = [] /\
               rw_cfg w' = rw_cfg w /\ rw_open_fail w' = false /\
               exists m, rw_bytes w' = rw_bytes w ++ m.
Proof. exact tie_newThermalRaw_ok. Qed.

Theorem C18_source_open_fail : forall w t,
    rw_open_fail w = true ->
    ThermalRaw_fn_newThermalRaw rext t w = Ok (mkBuilder 0, 1) (with_pending w 1).
Proof. exact tie_newThermalRaw_open_fail. Qed.

(* a whole file - newThermalRaw, then writeFrame for every frame: the bytes are [enc_file], the
   format C18_parse_roundtrip is about, and parse back to the header fields and the frames *)
Theorem C18_source_file : forall c t frames,
    cfg_ok c ->
    exists w', src_raw_file c t frames [] false = Ok 0 w' /\
               rw_outs w' = [enc_file (raw_header c t) frames].
Proof. exact tie_raw_file. Qed.

Theorem C18_source_file_parses : forall c t frames,
    cfg_ok c -> Forall (fun fr => Z.of_nat (List.length fr) < 2 ^ 32) frames ->
    exists w' file, src_raw_file c t frames [] false = Ok 0 w' /\ rw_outs w' = [file] /\
                    parse_file file = Some (raw_header c t, frames).
Proof. exact tie_raw_file_parses. Qed.

(* the two Builder methods on any field writer fw: the section prologue (the field count is the
   writer's uint8 counter: the number of fields mod 256) and the encoded fields [, the data] *)
Theorem C18_source_WriteHeader : forall w o fw,
    oin w o ->
    exists w', Builder_WriteHeader rext (mkBuilder o) fw w =
                 Ok (mkBuilder o, fst (fst (write_seq (rw_faults w) (header_chunks w fw)))) w' /\
               advanced w w' o (snd (fst (write_seq (rw_faults w) (header_chunks w fw))))
                        (snd (write_seq (rw_faults w) (header_chunks w fw))).
Proof. exact tie_WriteHeader_gen. Qed.

Theorem C18_source_WriteFrame : forall w o fw t,
    oin w o -> (Z.to_nat t < List.length (rw_bytes w))%nat ->
    exists w', Builder_WriteFrame rext (mkBuilder o) fw t w =
                 Ok (mkBuilder o, fst (fst (write_seq (rw_faults w) (frame_chunks w fw t)))) w' /\
               advanced w w' o (snd (fst (write_seq (rw_faults w) (frame_chunks w fw t))))
                        (snd (write_seq (rw_faults w) (frame_chunks w fw t))).
Proof. exact tie_WriteFrame_gen. Qed.

(* ---- source tie: the two goroutines of cmd/thermal-writer/main.go as they are in /repo now ----
   coq/translated/WriterLoop.v is regenerated from the Go source on every run (translate/chans.go):
   ALL of handleConn - header read, the two channels, the pool of inFlight buffers, `go writer(..)`, the
   frame loop with `<-spentFrames`, io.ReadFull, close(writeFrames) + return on error, the logging
   conditions, `writeFrames <- frame` - and ALL of writer - newThermalRaw, the loop with its select on the
   rotation timer and on inFrames, writeFrame, `outFrames <- frame`, Close, time.After; newThermalRaw,
   writeFrame and Builder.Close are the TRANSLATED definitions of unit ThermalRaw (above).  Channel
   operations, select and go are calls that leave the translation; model/WriterLoopExt.v says what they
   mean: the two channels are the FIFO queues of model/Writer.v, buffers are byte slices of the CPTR
   builder's world, the socket is Socket.v's chunk list, the timer fires by a script.
   CONVENTION: a blocking operation that cannot proceed is not scheduled (the iteration theorems assume the
   goroutine's first operation can proceed and PROVE that no later one blocks; the scheduler skips a
   goroutine that cannot proceed; a call that could not proceed would set [wl_bad], and never does).
   GRANULARITY: one scheduling step = one iteration of one goroutine's loop body = the two or three
   steps of model/Writer.v named in the theorem, all enabled; C18_ownership .. C18_flush above are about
   every interleaving of those finer steps, of which the iteration-level ones are a subset.
   SIDE CONDITIONS (explicit in the statements): frame size >= 1 (with FrameSize 0 io.ReadFull reads nothing
   and the loop spins, storing empty frames for ever); header fps and the two log intervals non-zero
   (`totalFrames % interval`: a header without FPS divides by zero on the first frame - as in C14);
   nextFile succeeds and no Write fails - otherwise the Go code PANICS (C18_source_loop_open_fail_panics,
   C18_source_loop_write_fault_panics), taking the daemon down; model / brand / device name <= 255 bytes
   ([cfg_ok], only for the header fields). *)
From TR Require Import model.Socket model.WriterLoopExt translated.WriterLoop proofs.TieWriterLoopBase proofs.TieWriterLoop.

(* one iteration of the translated reader loop, from a state in which `<-spentFrames` can proceed and
   the connection still holds a whole frame: it takes the HEAD of spentFrames, fills that buffer with
   exactly the next frame-size bytes of the stream (any segmentation), appends it to writeFrames
   (which has room: never blocks) - the steps RTake, RFill, RSend of model/Writer.v; nothing else of
   the world changes (the log conditions touch nothing) *)
Theorem C18_source_loop_reader : forall nbuf base fs p cfg0,
    (1 <= fs)%nat -> rp_reader p = READER -> rp_header p = HDR -> rp_i1 p <> 0 -> rp_i2 p <> 0 ->
    forall w wt s input st b sp,
      Rel nbuf base fs p cfg0 w s -> RelF w wt s -> Inv nbuf input s -> ws_closed s = false -> ws_spent s = b :: sp ->
      (fs <= List.length (List.concat (wl_in w)))%nat ->
      let f := firstn fs (List.concat (wl_in w)) in
      exists st' w' s1 s2 s3,
        reader_body p st w = Ok (LCont st') w' /\
        wstep nbuf s RTake = Some s1 /\ wstep nbuf s1 RFill = Some s2 /\ wstep nbuf s2 RSend = Some s3 /\
        Rel nbuf base fs p cfg0 w' s3 /\ RelF w' wt s3 /\
        ws_input s = f :: ws_input s3 /\ ws_queue s3 = ws_queue s ++ [b] /\ ws_contents s3 b = f /\
        ws_spent s3 = sp /\
        List.concat (wl_in w') = skipn fs (List.concat (wl_in w)) /\
        wl_timer w' = wl_timer w /\ ws_closed s3 = false.
Proof. exact reader_iteration. Qed.

(* ... and when the connection ends before the frame is complete: close(writeFrames), the error
   (io.EOF / io.ErrUnexpectedEOF) is returned, the taken buffer is dropped (in no channel) - RTake, REof *)
Theorem C18_source_loop_reader_eof : forall nbuf base fs p cfg0,
    (1 <= fs)%nat -> rp_reader p = READER -> rp_header p = HDR ->
    forall w wt s input st b sp,
      Rel nbuf base fs p cfg0 w s -> RelF w wt s -> Inv nbuf input s -> ws_closed s = false -> ws_spent s = b :: sp ->
      (List.length (List.concat (wl_in w)) < fs)%nat ->
      exists e w' s1 s2,
        reader_body p st w = Ok (LRet e) w' /\ e <> 0 /\ (e = WERR_EOF \/ e = WERR_UEOF) /\
        wstep nbuf s RTake = Some s1 /\ wstep nbuf s1 REof = Some s2 /\
        Rel nbuf base fs p cfg0 w' s2 /\ RelF w' wt s2 /\
        ws_input s = [] /\ ws_queue s2 = ws_queue s /\ ws_spent s2 = sp /\ ws_closed s2 = true /\
        ws_rhand s2 = Some (b, false) /\ wl_in w' = [] /\ wl_timer w' = wl_timer w.
Proof. exact reader_iteration_eof. Qed.

(* one iteration of the translated writer loop when a frame is queued and the timer does not fire at
   this select: it receives the HEAD of writeFrames, writes exactly that buffer's bytes as ONE frame
   section ([enc_frame], through the translated writeFrame) to the open file, returns the buffer to
   spentFrames (which has room) - WRecv, WWrite, WReturn *)
Theorem C18_source_loop_writer_frame : forall nbuf base fs p cfg0,
    (1 <= fs)%nat ->
    forall w s input bld err tm b q,
      Rel nbuf base fs p cfg0 w s -> RelF w (WRun (bld, err, tm)) s -> Inv nbuf input s ->
      hd false (wl_timer w) = false -> ws_queue s = b :: q ->
      let o := Builder_w bld in
      exists w' s1 s2 s3,
        writer_body p (bld, err, tm) w = Ok (LCont (bld, err, tm)) w' /\
        wstep nbuf s WRecv = Some s1 /\ wstep nbuf s1 WWrite = Some s2 /\ wstep nbuf s2 WReturn = Some s3 /\
        Rel nbuf base fs p cfg0 w' s3 /\ RelF w' (WRun (bld, err, tm)) s3 /\
        ws_queue s3 = q /\ ws_spent s3 = ws_spent s ++ [b] /\ ws_cur s3 = ws_cur s ++ [ws_contents s b] /\
        ws_files s3 = ws_files s /\
        rout (wl_raw w') o = rout (wl_raw w) o ++ enc_frame (ws_contents s b) /\
        wl_timer w' = tl (wl_timer w) /\ wl_in w' = wl_in w /\ ws_closed s3 = ws_closed s.
Proof. exact writer_frame. Qed.

(* ... when writeFrames is closed and drained: Close of the open file, return - WFinish *)
Theorem C18_source_loop_writer_finish : forall nbuf base fs p cfg0,
    forall w s input bld err tm,
      Rel nbuf base fs p cfg0 w s -> RelF w (WRun (bld, err, tm)) s -> Inv nbuf input s ->
      hd false (wl_timer w) = false -> ws_queue s = [] -> ws_closed s = true ->
      exists w' s1,
        writer_body p (bld, err, tm) w = Ok (LRet tt) w' /\
        wstep nbuf s WFinish = Some s1 /\
        Rel nbuf base fs p cfg0 w' s1 /\ RelF w' WDone s1 /\
        ws_files s1 = ws_files s ++ [ws_cur s] /\ ws_done s1 = true /\
        wl_closed w' = wl_closed w ++ [Builder_w bld] /\ wl_raw w' = wl_raw w /\ wl_in w' = wl_in w /\ ws_closed s1 = true.
Proof. exact writer_finish. Qed.

(* ... when the timer fires: Close of the open file, the next file with its header (translated
   newThermalRaw), a NEW timer armed (the fired one is spent) - WRotate; no frame is touched *)
Theorem C18_source_loop_writer_rotate : forall nbuf base fs p cfg0,
    (1 <= fs)%nat ->
    forall w s input bld err tm,
      Rel nbuf base fs p cfg0 w s -> RelF w (WRun (bld, err, tm)) s -> Inv nbuf input s ->
      hd false (wl_timer w) = true ->
      exists w' s1 bld' tm',
        writer_body p (bld, err, tm) w = Ok (LCont (bld', 0, tm')) w' /\
        wstep nbuf s WRotate = Some s1 /\
        Rel nbuf base fs p cfg0 w' s1 /\ RelF w' (WRun (bld', 0, tm')) s1 /\
        ws_files s1 = ws_files s ++ [ws_cur s] /\ ws_cur s1 = [] /\ ws_queue s1 = ws_queue s /\ ws_spent s1 = ws_spent s /\
        wl_closed w' = wl_closed w ++ [Builder_w bld] /\ Builder_w bld' = Builder_w bld + 1 /\
        chan_at w' tm = Some (CTimer (match chan_at w tm with Some (CTimer d _) => d | _ => 0 end) true) /\
        tm' <> tm /\ wl_timer w' = tl (wl_timer w) /\ wl_in w' = wl_in w /\ ws_closed s1 = ws_closed s.
Proof. exact writer_rotate. Qed.

(* writer before its loop: the first file with its header, the timer; and the translated writer IS
   that start followed by `forever` of the loop body the theorems above are about *)
Theorem C18_source_loop_writer_begin : forall nbuf base fs p cfg0,
    (1 <= fs)%nat ->
    forall w s input,
      Rel nbuf base fs p cfg0 w s -> RelF w WStart s -> Inv nbuf input s ->
      exists w' tm,
        writer_start p w = Ok (mkBuilder 0, 0, tm) w' /\
        (forall fuel, WriterLoop_fn_writer wext fuel (rp_wf p) (rp_sf p) w =
                      bind (forever fuel (writer_body p) (mkBuilder 0, 0, tm)) after_loop w') /\
        Rel nbuf base fs p cfg0 w' s /\ RelF w' (WRun (mkBuilder 0, 0, tm)) s /\
        wl_timer w' = wl_timer w /\ wl_in w' = wl_in w /\
        exists t, rw_outs (wl_raw w') = [enc_header (raw_header (rw_cfg (wl_raw w)) t)].
Proof. exact writer_begin. Qed.

(* handleConn from a fresh connection up to its loop: the translated function IS the loop body above,
   iterated, from [conn_start]: two channels of capacity 256, 256 buffers of FrameSize zero bytes, all of
   them in spentFrames in order, `go writer(writeFrames, .., spentFrames)`, the scaled log intervals *)
Theorem C18_source_loop_handleConn : forall conf cfg bytes0 fws rpend input pd vl timer clock lfr fs,
    wc_hdr_err conf = 0 -> wc_fs conf = Z.of_nat fs ->
    exists st0, forall fuel,
      WriterLoop_fn_handleConn wext fuel lfr (w_fresh conf cfg bytes0 fws rpend input pd vl timer clock) =
      bind (forever fuel (reader_body (conn_p conf cfg lfr)) st0) after_loop
           (conn_start conf cfg bytes0 fws rpend input vl timer clock fs).
Proof. exact handleConn_prelude. Qed.

Theorem C18_source_loop_header_error : forall conf cfg bytes0 fws rpend input pd vl timer clock lfr fuel,
    wc_hdr_err conf <> 0 ->
    WriterLoop_fn_handleConn wext fuel lfr (w_fresh conf cfg bytes0 fws rpend input pd vl timer clock) =
    Ok (Some (wc_hdr_err conf)) (with_pend (w_fresh conf cfg bytes0 fws rpend input pd vl timer clock) (wc_hdr_err conf)).
Proof. exact handleConn_header_error. Qed.

(* one scheduling step of the translated code (either goroutine; skipped when it cannot proceed) is a
   sequence of enabled steps of model/Writer.v, and keeps the relation *)
Theorem C18_source_loop_step : forall nbuf base fs p cfg0,
    (1 <= fs)%nat -> rp_reader p = READER -> rp_header p = HDR -> rp_i1 p <> 0 -> rp_i2 p <> 0 ->
    forall input x s c,
      SysRel nbuf base fs p cfg0 input x s ->
      exists labels, SysRel nbuf base fs p cfg0 input (sys_step p x c) (wrun nbuf s labels).
Proof. exact sys_step_sim. Qed.

(* COROLLARY: for EVERY schedule of the two translated goroutines from the state in which handleConn
   enters its loop, the state reached is related to a state of model/Writer.v reached from its initial
   state on the connection's frames - so C18_ownership, C18_prefix, C18_flush speak about the Go code *)
Theorem C18_source_loop_schedules : forall conf cfg bytes0 fws rpend input vl timer clock lfr fs,
    (1 <= fs)%nat -> cfg_ok cfg -> wc_int1 conf * rc_fps cfg <> 0 -> wc_int2 conf * rc_fps cfg <> 0 ->
    forall st0 sched,
      exists labels,
        SysRel 256 (List.length bytes0) fs (conn_p conf cfg lfr) cfg (conn_frames input fs)
               (sys_run (conn_p conf cfg lfr) (sys0 conf cfg bytes0 fws rpend input vl timer clock fs st0) sched)
               (reach 256 (conn_frames input fs) labels).
Proof. exact source_all_schedules. Qed.

Theorem C18_source_loop_no_panic : forall conf cfg bytes0 fws rpend input vl timer clock lfr fs,
    (1 <= fs)%nat -> cfg_ok cfg -> wc_int1 conf * rc_fps cfg <> 0 -> wc_int2 conf * rc_fps cfg <> 0 ->
    forall st0 sched,
      let x := sys_run (conn_p conf cfg lfr) (sys0 conf cfg bytes0 fws rpend input vl timer clock fs st0) sched in
      sy_r x <> RPanic /\ sy_wr x <> WPanic /\ wl_bad (sy_w x) = false.
Proof. exact source_no_panic. Qed.

(* at every moment of every schedule the files hold a prefix of the stream's frames, once, in order *)
Theorem C18_source_loop_prefix : forall conf cfg bytes0 fws rpend input vl timer clock lfr fs,
    (1 <= fs)%nat -> cfg_ok cfg -> wc_int1 conf * rc_fps cfg <> 0 -> wc_int2 conf * rc_fps cfg <> 0 ->
    forall st0 sched,
      let x := sys_run (conn_p conf cfg lfr) (sys0 conf cfg bytes0 fws rpend input vl timer clock fs st0) sched in
      sy_wr x <> WStart ->
      exists files,
        Forall2 (file_of cfg) (rw_outs (wl_raw (sy_w x))) files /\
        exists rest, List.concat files ++ rest = conn_frames input fs.
Proof. exact source_prefix. Qed.

(* once writer has returned (on any schedule): handleConn had returned the read error; the files, in
   order, hold EXACTLY the stream's frames, once, in order; every file is closed - all that was queued
   was written before the last Close *)
Theorem C18_source_loop_final : forall conf cfg bytes0 fws rpend input vl timer clock lfr fs,
    (1 <= fs)%nat -> cfg_ok cfg -> wc_int1 conf * rc_fps cfg <> 0 -> wc_int2 conf * rc_fps cfg <> 0 ->
    forall st0 sched,
      let x := sys_run (conn_p conf cfg lfr) (sys0 conf cfg bytes0 fws rpend input vl timer clock fs st0) sched in
      sy_wr x = WDone ->
      exists files,
        Forall2 (file_of cfg) (rw_outs (wl_raw (sy_w x))) files /\
        List.concat files = conn_frames input fs /\
        wl_closed (sy_w x) = map Z.of_nat (seq 0 (List.length (rw_outs (wl_raw (sy_w x))))) /\
        exists e, sy_r x = RDone e /\ e <> 0.
Proof. exact source_final. Qed.

Theorem C18_source_loop_final_parses : forall conf cfg bytes0 fws rpend input vl timer clock lfr fs,
    (1 <= fs)%nat -> cfg_ok cfg -> wc_int1 conf * rc_fps cfg <> 0 -> wc_int2 conf * rc_fps cfg <> 0 ->
    forall st0 sched,
      let x := sys_run (conn_p conf cfg lfr) (sys0 conf cfg bytes0 fws rpend input vl timer clock fs st0) sched in
      sy_wr x = WDone -> Z.of_nat fs < 2 ^ 32 ->
      exists files,
        Forall2 (fun out frames => exists h, parse_file out = Some (h, frames)) (rw_outs (wl_raw (sy_w x))) files /\
        List.concat files = conn_frames input fs.
Proof. exact source_final_parses. Qed.

(* the side conditions the Go code forces: it panics when the file cannot be created / a Write fails *)
Theorem C18_source_loop_open_fail_panics : forall p w fuel,
    rw_open_fail (wl_raw w) = true ->
    exists w', WriterLoop_fn_writer wext fuel (rp_wf p) (rp_sf p) w = Panicked w' /\ writer_start p w = Panicked w'.
Proof. exact writer_open_fail_panics. Qed.

Theorem C18_source_loop_write_fault_panics : forall p w bld err tm d cap v q cl f,
    chan_at w tm = Some (CTimer d false) -> chan_at w (rp_wf p) = Some (CFrames cap (v :: q) cl) ->
    hd false (wl_timer w) = false ->
    oin (wl_raw w) (Builder_w bld) -> (Z.to_nat v < List.length (rw_bytes (wl_raw w)))%nat ->
    rw_faults (wl_raw w) = true :: f ->
    exists w', writer_body p (bld, err, tm) w = Panicked w'.
Proof. exact writer_write_fault_panics. Qed.

(* every function of the unit is translated *)
Theorem C18_source_loop_all_translated : untranslated_WriterLoop = [] /\
    translated_WriterLoop = ["WriterLoop_fn_writer"%string; "WriterLoop_fn_handleConn"%string].
Proof. split; reflexivity. Qed.

(* ---- the file object itself: cmd/thermal-writer/bufferedfile.go, translated on every run ----
   coq/translated/BufferedFile.v: newBufferedFile, bufferedFile.Write, bufferedFile.Close.  model/BufExt.v
   states what os.Create, os.File.Write (all or nothing, fault script), os.File.Close and bufio.Writer
   (Write / Flush as the standard library defines them, mid-stream flushes and the sticky error
   included) do.  Seen through [accepted] (bytes on disk ++ bytes buffered) the translated object IS the
   io.WriteCloser that model/RawExt.v assumes for the CPTR builder above. *)
Theorem C18_source_file_object_new : forall w name,
    bw_stage w = 0 -> bw_create_fail w = false -> bw_bad w = false ->
    exists w', BufferedFile_fn_newBufferedFile bext name w = Ok (THE_FILE, 0) w' /\
      live w' /\ bw_disk w' = [] /\ bw_buf w' = [] /\ bw_size w' = BUF_SIZE /\ bw_err w' = 0 /\
      bw_closed w' = false /\ bw_bytes w' = bw_bytes w /\ bw_faults w' = bw_faults w /\ bw_close_fail w' = bw_close_fail w.
Proof. exact tie_newBufferedFile_ok. Qed.

Theorem C18_source_file_object_create_fails : forall w name,
    bw_stage w = 0 -> bw_create_fail w = true ->
    BufferedFile_fn_newBufferedFile bext name w = Ok (mkbufferedFile 0 0, 1) (set_pending w 1).
Proof. exact tie_newBufferedFile_fail. Qed.

(* Write(p) = (n, e): exactly the first n bytes of p are accepted, after everything accepted before - with
   or without write faults, whatever the buffer holds; e = 0 -> all of p; the disk only grows by appending *)
Theorem C18_source_file_object_write : forall w t,
    live w ->
    exists n e w', bufferedFile_Write bext THE_FILE t w = Ok (THE_FILE, (n, e)) w' /\
      accepted w' = accepted w ++ firstn (Z.to_nat n) (bchunk w t) /\
      (e = 0 -> n = blen (bchunk w t) /\ bw_err w' = bw_err w) /\ (e <> 0 -> bw_err w' <> 0) /\
      0 <= n <= blen (bchunk w t) /\
      same_object w w' /\ live w' /\ bw_closed w' = bw_closed w /\
      (bw_faults w = [] -> bw_closed w = false -> bw_err w = 0 -> e = 0 /\ bw_faults w' = []).
Proof. exact tie_bufferedFile_Write. Qed.

(* Close = nil: the file holds exactly everything accepted and is closed; an earlier write error is
   returned again and then the file is neither written nor closed *)
Theorem C18_source_file_object_close : forall w,
    live w ->
    exists e w', bufferedFile_Close bext THE_FILE w = Ok (THE_FILE, e) w' /\
      (e = 0 -> bw_disk w' = accepted w /\ bw_buf w' = [] /\ bw_closed w' = true) /\
      same_object w w' /\ accepted w' = accepted w /\ bw_bad w' = false /\
      (bw_err w <> 0 -> e = bw_err w /\ bw_closed w' = bw_closed w /\ bw_disk w' = bw_disk w) /\
      (bw_faults w = [] -> bw_closed w = false -> bw_err w = 0 -> bw_close_fail w = false -> e = 0).
Proof. exact tie_bufferedFile_Close. Qed.

(* non-vacuity: a world that is [live] with a half-full buffer, and one whole life computed *)
Example C18_source_file_object_example :
    src_buf_file 7 [[1; 2; 3]; [4; 5]; []; [6]] [] false false <> Panicked (bw_init [] [] false false) /\
    (match src_buf_file 7 [[1; 2; 3]; [4; 5]; []; [6]] [] false false with
     | Ok e w => (e, bw_disk w, bw_buf w, bw_closed w, bw_bad w)
     | Panicked _ => (1, [], [], false, true) end) = (0, [1; 2; 3; 4; 5; 6], [], true, false).
Proof. split; [discriminate | vm_compute; reflexivity]. Qed.

Theorem C18_source_file_object_all_translated : untranslated_BufferedFile = [] /\
    translated_BufferedFile = ["BufferedFile_fn_newBufferedFile"%string; "bufferedFile_Write"%string; "bufferedFile_Close"%string].
Proof. split; reflexivity. Qed.
