(* Property C18 - thermal-writer stores every frame once, in order, in well-formed CPTR files.
   Proof on a transition system of the reader loop and the writer goroutine plus the byte-level
   encoder - partial: real goroutine scheduling and the channel implementation are outside the
   theorem (trusted: Go channels are FIFO, close delivers buffered items first) and are
   exercised by running the real daemon code with GOMAXPROCS 1..16 and a stalled writer. *)
From Coq Require Import List ZArith Bool Arith Permutation String.
From TR Require Import Extracted model.Writer proofs.WriterProofs.
Import ListNotations.
Close Scope string_scope.
Open Scope list_scope.
Open Scope Z_scope.

(* in every reachable state - every schedule, i.e. every interleaving of reader and writer and
   every lag - each buffer is in exactly one of {spent channel, reader's hand, write queue,
   writer's hand}: a recycled buffer never aliases a frame still waiting to be written, and at
   most nbuf (= 256, inFlight) frames are in flight *)
Theorem C18_ownership : forall nbuf input sched,
    let s := reach nbuf input sched in
    Permutation (ws_spent s ++ hand_list (ws_rhand s) ++ ws_queue s ++ hand_list (ws_whand s)) (seq 0 nbuf) /\
    (List.length (ws_queue s) <= nbuf)%nat.
Proof. exact ownership. Qed.

(* at every moment: frames in the files ++ frames in flight (in order) ++ frames not yet
   arrived = the input: every frame exactly once, in arrival order, byte for byte *)
Theorem C18_prefix : forall nbuf input sched,
    let s := reach nbuf input sched in
    ws_closed s = false ->
    written s ++ whand_pending s ++ map (ws_contents s) (ws_queue s) ++ rhand_pending s ++ ws_input s = input.
Proof. exact conservation. Qed.

Theorem C18_prefix_after_eof : forall nbuf input sched,
    let s := reach nbuf input sched in
    ws_closed s = true ->
    written s ++ whand_pending s ++ map (ws_contents s) (ws_queue s) = input.
Proof. exact conservation_closed. Qed.

(* when the connection ends every maximal run flushes all queued frames before the file is
   closed; the final contents do not depend on the schedule *)
Theorem C18_flush : forall nbuf input sched,
    (1 <= nbuf)%nat ->
    let s := reach nbuf input sched in
    quiescent nbuf s = true ->
    ws_done s = true /\ List.concat (ws_files s) = input /\ ws_cur s = [].
Proof. exact flush. Qed.

(* well-formed CPTR files (magic, version, header fields, then length-prefixed frame sections)
   parse back to exactly their header fields and frames, for all frame sizes below 2^32 *)
Theorem C18_parse_roundtrip : forall hdr frames,
    (List.length hdr <= 255)%nat -> Forall field_ok hdr ->
    Forall (fun fr => Z.of_nat (List.length fr) < 2 ^ 32) frames ->
    parse_file (enc_file hdr frames) = Some (hdr, frames).
Proof. exact parse_roundtrip. Qed.

(* the format constants and the queue depth as the Go sources have them now *)
Theorem C18_constants :
  CPTR_MAGIC = cptr_magic /\ CPTR_VERSION = cptr_version /\ SEC_HEADER = cptr_header_section /\
  SEC_FRAME = cptr_frame_section /\ writer_in_flight = 256.
Proof. repeat split; reflexivity. Qed.
