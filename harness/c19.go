package main

import (
	"fmt"
	"math/rand"
	"strings"

	"github.com/TheCacophonyProject/thermal-recorder/motion"
)

// C19: FrameLoop against the ring model. ops: 0=put v, 1=move, 2=mark, 3=reset.
type c19Op struct {
	K int `json:"k"`
	V int `json:"v"`
}
type c19Input struct {
	Size int     `json:"size"`
	Ops  []c19Op `json:"ops"`
}
type c19Obs struct {
	Hist   []int `json:"hist"`
	Oldest int   `json:"oldest"`
	Recent int   `json:"recent"`
	Cur    int   `json:"cur"`
}

func c19Run(in c19Input) []c19Obs {
	cam := testCam{4, 4, 9}
	fl := motion.NewFrameLoop(in.Size, cam)
	var obs []c19Obs
	// a panic of the ring (e.g. a slice bound) is an observation like any other: the step that
	// panicked and every later one report the marker -999, which no model history contains
	panicked := false
	step := func(op c19Op) (o c19Obs) {
		defer func() {
			if r := recover(); r != nil {
				panicked = true
				o = c19Obs{Hist: []int{-999}, Oldest: -999, Recent: -999, Cur: -999}
			}
		}()
		switch op.K {
		case 0:
			setID(fl.Current(), op.V)
		case 1:
			fl.Move()
		case 2:
			fl.SetAsOldest()
		case 3:
			fl.Reset()
		}
		for _, f := range fl.GetHistory() {
			o.Hist = append(o.Hist, getID(f))
		}
		o.Oldest = getID(fl.Oldest())
		o.Recent = getID(fl.CopyRecent())
		o.Cur = getID(fl.Current())
		return o
	}
	for _, op := range in.Ops {
		if panicked {
			obs = append(obs, c19Obs{Hist: []int{-999}, Oldest: -999, Recent: -999, Cur: -999})
			continue
		}
		obs = append(obs, step(op))
	}
	return obs
}

func c19Gen(rng *rand.Rand, i int) c19Input {
	var in c19Input
	in.Size = 1 + rng.Intn(9)
	if i%7 == 0 {
		in.Size = 1 + rng.Intn(2)
	}
	n := 5 + rng.Intn(56)
	next := 1
	// weights vary per case so that some histories are mark-heavy, some reset-heavy
	wMark := rng.Intn(4)
	wReset := rng.Intn(3)
	wBare := rng.Intn(2)
	for len(in.Ops) < n {
		r := rng.Intn(10 + wMark + wReset + 2*wBare)
		switch {
		case r < 10: // a "frame": put then move (sometimes several in a row to wrap)
			reps := 1
			if rng.Intn(4) == 0 {
				reps = in.Size - 1 + rng.Intn(3) // wrap -1, exactly, +1
				if reps < 1 {
					reps = 1
				}
			}
			for j := 0; j < reps; j++ {
				in.Ops = append(in.Ops, c19Op{0, next}, c19Op{1, 0})
				next++
			}
		case r < 10+wMark:
			in.Ops = append(in.Ops, c19Op{2, 0})
		case r < 10+wMark+wReset:
			in.Ops = append(in.Ops, c19Op{3, 0})
		case r < 10+wMark+wReset+wBare:
			in.Ops = append(in.Ops, c19Op{1, 0}) // move without put (stale slot committed)
		default:
			in.Ops = append(in.Ops, c19Op{0, next}) // put without move (overwritten later)
			next++
		}
	}
	return in
}

func c19Coq(in c19Input, obs []c19Obs) string {
	var steps []string
	for i, op := range in.Ops {
		var o string
		switch op.K {
		case 0:
			o = fmt.Sprintf("OPut %s", zs(op.V))
		case 1:
			o = "OMove"
		case 2:
			o = "OMark"
		case 3:
			o = "OReset"
		}
		ob := obs[i]
		steps = append(steps, fmt.Sprintf("(%s, mkObs %s %s %s %s)", o, zlist(ob.Hist), zs(ob.Oldest), zs(ob.Recent), zs(ob.Cur)))
	}
	return fmt.Sprintf("mkCase %s %s", zs(in.Size), coqList(steps))
}

func init() {
	runners["C19"] = func(rng *rand.Rand, n int, tier string, emit func(Case)) {
		var rin c19Input
		if loadReplay(&rin) {
			obs := c19Run(rin)
			emit(Case{Coq: c19Coq(rin, obs), Input: rin, Impl: obs, Key: "replay", Nontriv: true})
			return
		}
		for i := 0; i < n; i++ {
			in := c19Gen(rng, i)
			obs := c19Run(in)
			marks, resets, moves := 0, 0, 0
			for _, op := range in.Ops {
				switch op.K {
				case 1:
					moves++
				case 2:
					marks++
				case 3:
					resets++
				}
			}
			tags := []string{fmt.Sprintf("size=%d", in.Size)}
			if moves >= in.Size {
				tags = append(tags, "wrapped")
			}
			if marks > 0 {
				tags = append(tags, "mark")
			}
			if resets > 0 {
				tags = append(tags, "reset")
			}
			var kb strings.Builder
			fmt.Fprintf(&kb, "%d:", in.Size)
			for _, op := range in.Ops {
				fmt.Fprintf(&kb, "%d", op.K)
			}
			emit(Case{Coq: c19Coq(in, obs), Input: in, Impl: obs, Tags: tags,
				Nontriv: moves >= in.Size && (marks > 0 || resets > 0), Key: kb.String()})
		}
	}
}
