package main

import (
	"bufio"
	"encoding/base64"
	"encoding/json"
	"fmt"
	"io"
	"math"
	"math/rand"
	"os"
	"os/exec"
)

type parseInput struct {
	Format string `json:"format"`
	W      int    `json:"w"`
	H      int    `json:"h"`
	Edge   int    `json:"edge"`
	Raw    []int  `json:"raw"`
}

type parseObs struct {
	Bad          bool    `json:"bad"`
	Err          string  `json:"err"`
	Pix          [][]int `json:"pix"`
	TimeOn       int64   `json:"timeon"`
	LastFFC      int64   `json:"lastffc"`
	FrameCount   int64   `json:"framecount"`
	FrameMean    int64   `json:"framemean"`
	TempC        float64 `json:"tempc"`
	LastFFCTempC float64 `json:"lastffctempc"`
	FFCState     string  `json:"ffcstate"`
}

type driverProc struct {
	cmd *exec.Cmd
	in  io.WriteCloser
	out *bufio.Reader
}

func startDriver(bin, mode, args string, extraEnv ...string) *driverProc {
	return startDriverWrapped(nil, bin, mode, args, extraEnv...)
}

// startDriverWrapped runs the driver under a wrapper command (e.g. strace ...)
func startDriverWrapped(wrap []string, bin, mode, args string, extraEnv ...string) *driverProc {
	cmd := exec.Command(bin)
	if len(wrap) > 0 {
		cmd = exec.Command(wrap[0], append(append([]string{}, wrap[1:]...), bin)...)
	}
	cmd.Env = append(os.Environ(), "VERIF_DRIVER="+mode, "VERIF_ARGS="+args)
	cmd.Env = append(cmd.Env, extraEnv...)
	in, _ := cmd.StdinPipe()
	out, _ := cmd.StdoutPipe()
	cmd.Stderr = os.Stderr
	if err := cmd.Start(); err != nil {
		panic(err)
	}
	return &driverProc{cmd, in, bufio.NewReaderSize(out, 1<<22)}
}

func buildDir() string {
	if d := os.Getenv("VERIF_BUILD"); d != "" {
		return d
	}
	return "/verif/build"
}

func parseCoq(in parseInput, o parseObs) string {
	f := "Lepton"
	if in.Format == "boson" {
		f = "Boson"
	}
	var flat []int
	for _, r := range o.Pix {
		flat = append(flat, r...)
	}
	state := map[string]int{"never": 0, "imminent": 1, "running": 2, "complete": 3, "": -1}[o.FFCState]
	return fmt.Sprintf("mkCase %s %d %d %d %s (mkPO %s %s %d %s %d %d %d %d %d)", f, in.H, in.W, in.Edge, zlist(in.Raw),
		coqBool(o.Bad), zlist(flat), o.TimeOn, zs(state), o.FrameCount, o.FrameMean,
		math.Float64bits(o.TempC), math.Float64bits(o.LastFFCTempC), o.LastFFC)
}

func parseGen(rng *rand.Rand, i int) parseInput {
	var in parseInput
	in.Format = []string{"lepton", "boson"}[rng.Intn(2)]
	in.W = 2 + rng.Intn(7)
	in.H = 2 + rng.Intn(6)
	in.Edge = rng.Intn(3)
	if rng.Intn(6) == 0 {
		in.Edge = rng.Intn(5) // including borders that cover everything
	}
	n := 2 * in.W * in.H
	off := 0
	if in.Format == "lepton" {
		off = 640
	}
	in.Raw = make([]int, off+n)
	// telemetry: random words, with interesting values in the fields that are read
	for k := 0; k < off; k++ {
		in.Raw[k] = rng.Intn(256)
	}
	if in.Format == "lepton" && rng.Intn(3) == 0 {
		for _, o := range []int{2, 3, 4, 5, 60, 61, 62, 63} { // extreme durations
			in.Raw[o] = []int{0, 255}[rng.Intn(2)]
		}
	}
	// pixels: mostly non-zero, zeros planted by position class
	base := 1 + rng.Intn(65535)
	for p := 0; p < in.W*in.H; p++ {
		v := base
		switch rng.Intn(12) {
		case 0:
			v = 65535
		case 1:
			v = 1
		case 2:
			v = 256 // low byte zero
		case 3:
			v = 255 // high byte zero
		case 4:
			v = rng.Intn(65536)
		}
		setPix(in, off, p, v)
	}
	nz := []int{0, 0, 1, 1, 2, 3}[rng.Intn(6)]
	for k := 0; k < nz; k++ {
		var y, x int
		switch rng.Intn(6) {
		case 0: // anywhere
			y, x = rng.Intn(in.H), rng.Intn(in.W)
		case 1: // border
			y, x = 0, rng.Intn(in.W)
		case 2: // first interior pixel
			y, x = in.Edge, in.Edge
		case 3: // last interior pixel
			y, x = in.H-1-in.Edge, in.W-1-in.Edge
		case 4: // just inside the border
			y, x = in.Edge, rng.Intn(in.W)
		default: // just outside the interior
			y, x = in.H-in.Edge, rng.Intn(in.W)
		}
		if y >= 0 && y < in.H && x >= 0 && x < in.W {
			setPix(in, off, y*in.W+x, 0)
		}
	}
	return in
}

func setPix(in parseInput, off, p, v int) {
	if in.Format == "lepton" {
		in.Raw[off+2*p], in.Raw[off+2*p+1] = v>>8, v&255
	} else {
		in.Raw[off+2*p], in.Raw[off+2*p+1] = v&255, v>>8
	}
}

func parseRun(d *driverProc, in parseInput) parseObs {
	raw := make([]byte, len(in.Raw))
	for i, b := range in.Raw {
		raw[i] = byte(b)
	}
	req, _ := json.Marshal(map[string]interface{}{"format": in.Format, "w": in.W, "h": in.H, "edge": in.Edge, "raw": base64.StdEncoding.EncodeToString(raw)})
	d.in.Write(append(req, '\n'))
	line, err := d.out.ReadBytes('\n')
	if err != nil {
		panic(fmt.Sprint("driver died: ", err))
	}
	var o parseObs
	if err := json.Unmarshal(line, &o); err != nil {
		panic(err)
	}
	return o
}

func init() {
	runners["PARSE"] = func(rng *rand.Rand, n int, tier string, emit func(Case)) {
		d := startDriver(buildDir()+"/tr-driver", "parse", "")
		defer func() { d.in.Close(); d.cmd.Wait() }()
		var rin parseInput
		if loadReplay(&rin) {
			o := parseRun(d, rin)
			emit(Case{Coq: parseCoq(rin, o), Input: rin, Impl: o, Key: "replay", Nontriv: true})
			return
		}
		for i := 0; i < n; i++ {
			in := parseGen(rng, i)
			o := parseRun(d, in)
			tags := []string{"format=" + in.Format, fmt.Sprintf("edge=%d", in.Edge)}
			if o.Bad {
				tags = append(tags, "bad")
			} else {
				tags = append(tags, "ok")
			}
			zeros := 0
			off := len(in.Raw) - 2*in.W*in.H
			for p := 0; p < in.W*in.H; p++ {
				if in.Raw[off+2*p] == 0 && in.Raw[off+2*p+1] == 0 {
					zeros++
				}
			}
			if zeros > 0 && !o.Bad {
				tags = append(tags, "zero-on-border-only")
			}
			emit(Case{Coq: parseCoq(in, o), Input: in, Impl: o, Tags: tags, Nontriv: zeros > 0, Key: fmt.Sprint(in.Format, in.W, in.H, in.Edge, in.Raw[len(in.Raw)-2*in.W*in.H:])})
		}
	}
}
