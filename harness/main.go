// Correspondence harness: runs the real thermal-recorder code (built from
// /repo with -tags verif) on generated inputs and prints, per case, the input
// and the implementation's projected trace as Coq terms plus JSON for replays.
package main

import (
	"syscall"
	"bufio"
	"encoding/json"
	"flag"
	"fmt"
	"math/rand"
	"os"
	"sort"
	"strings"
)

// Case is one generated input with the implementation's observable trace.
type Case struct {
	ID      int                    `json:"id"`
	Coq     string                 `json:"coq"`     // Coq term of the property's case type
	Input   interface{}            `json:"input"`   // human-readable input (replay)
	Impl    interface{}            `json:"impl"`    // human-readable impl trace (replay)
	Tags    []string               `json:"tags"`    // distribution tags (evidence)
	Nontriv bool                   `json:"nontriv"` // non-trivial by the property's rule
	Key     string                 `json:"key"`     // canonical string for distinctness
	Extra   map[string]interface{} `json:"extra,omitempty"`
}

type propRunner func(rng *rand.Rand, n int, tier string, emit func(Case))

var runners = map[string]propRunner{}

func main() {
	prop := flag.String("prop", "", "property id")
	seed := flag.Int64("seed", 1, "seed")
	n := flag.Int("n", 100, "number of cases")
	tier := flag.String("tier", "quick", "tier")
	out := flag.String("out", "", "output file (jsonl)")
	replay := flag.String("replay", "", "replay file: re-run exactly this input")
	flag.Parse()
	r, ok := runners[*prop]
	if !ok {
		var ks []string
		for k := range runners {
			ks = append(ks, k)
		}
		sort.Strings(ks)
		fmt.Fprintf(os.Stderr, "unknown property %q; have %s\n", *prop, strings.Join(ks, " "))
		os.Exit(2)
	}
	f := os.Stdout
	if *out != "" {
		var err error
		f, err = os.Create(*out)
		if err != nil {
			panic(err)
		}
		defer f.Close()
	}
	w := bufio.NewWriterSize(f, 1<<20)
	defer w.Flush()
	id := 0
	emit := func(c Case) {
		c.ID = id
		id++
		b, err := json.Marshal(c)
		if err != nil {
			panic(err)
		}
		w.Write(b)
		w.WriteByte('\n')
	}
	replayInput = *replay
	rng := rand.New(rand.NewSource(*seed))
	r(rng, *n, *tier, emit)
}

var replayInput string

// ---- small helpers for Coq term printing ----

func zs(v int) string {
	if v < 0 {
		return fmt.Sprintf("(%d)", v)
	}
	return fmt.Sprintf("%d", v)
}

func z64(v int64) string {
	if v < 0 {
		return fmt.Sprintf("(%d)", v)
	}
	return fmt.Sprintf("%d", v)
}

func zlist(vs []int) string {
	var sb strings.Builder
	sb.WriteString("[")
	for i, v := range vs {
		if i > 0 {
			sb.WriteString(";")
		}
		sb.WriteString(zs(v))
	}
	sb.WriteString("]")
	return sb.String()
}

func coqList(items []string) string {
	return "[" + strings.Join(items, ";") + "]"
}

func coqBool(b bool) string {
	if b {
		return "true"
	}
	return "false"
}

// loadReplay decodes the "input" member of a replay file into v.
// The continuous recorder deletes recordings - and refuses to start when there is nothing left to delete - while
// 30 % or less of the file system's blocks are available (deleteExcessRecordings).  That depends on the machine the
// checks run on, not on the code under test: on such a file system the scenarios with the continuous recorder
// switched on are generated with it off (and say so), instead of reporting the recorder's refusal as a violation.
var constOK = func() bool {
	if os.Getenv("VERIF_NOCONST") != "" { // (to try the fallback on a machine with plenty of space)
		return false
	}
	var fs syscall.Statfs_t
	if err := syscall.Statfs(runDir(), &fs); err != nil || fs.Blocks == 0 {
		return true
	}
	ok := fs.Bavail*100/fs.Blocks > 40
	if !ok {
		fmt.Fprintln(os.Stderr, "NOTE: 40 % or less of the run directory's file system is available: scenarios with the continuous recorder on are generated with it off")
	}
	return ok
}()

func loadReplay(v interface{}) bool {
	if replayInput == "" {
		return false
	}
	b, err := os.ReadFile(replayInput)
	if err != nil {
		panic(err)
	}
	var wrap struct {
		Input json.RawMessage `json:"input"`
	}
	if err := json.Unmarshal(b, &wrap); err != nil {
		panic(err)
	}
	if err := json.Unmarshal(wrap.Input, v); err != nil {
		panic(err)
	}
	return true
}
