package main

import (
	"fmt"
	"io/ioutil"
	"log"
	"math"
	"math/rand"
	"strings"
	"time"

	config "github.com/TheCacophonyProject/go-config"
	"github.com/TheCacophonyProject/go-cptv/cptvframe"
	"github.com/TheCacophonyProject/thermal-recorder/motion"
)

// compact frame description, expanded identically here and in Coq (corr/Det.v: expand)
type detOv struct{ Y, X, V int }
type detFrame struct {
	Base   int     `json:"base"`
	Amp    int     `json:"amp"`
	Salt   int     `json:"salt"`
	Ov     []detOv `json:"ov,omitempty"`
	TimeOn int64   `json:"timeon_ns"`
	LastFF int64   `json:"lastffc_ns"`
	Reset  bool    `json:"reset,omitempty"` // a Reset() event instead of a frame
}
type detCfg struct {
	W, H, Edge, Gap    int
	One, Warmer, Dyn   bool
	Delta, Count       int
	Thresh, TMin, TMax int
	Preview            int // previewFrames
}
type detInput struct {
	Cfg    detCfg     `json:"cfg"`
	Evs    []detFrame `json:"evs"`
	Evs2   []detFrame `json:"evs2,omitempty"` // paired stream (C08 / C09)
	Mode   string     `json:"mode"`
	PairAt int        `json:"pair_from"` // C09: index from which both streams agree
}
type detObs struct {
	Motion   bool  `json:"motion"`
	Thresh   int   `json:"thresh"`
	BgFrames int   `json:"bgframes"`
	Bg       []int `json:"bg,omitempty"`  // row-major background after the event (dynamic only)
	WSum     int64 `json:"wsum,omitempty"` // checksum of the float32 weight bit patterns
}

func clamp16(v int) int {
	if v < 0 {
		return 0
	}
	if v > 65535 {
		return 65535
	}
	return v
}

func (f detFrame) pixel(y, x int) int {
	for _, o := range f.Ov {
		if o.Y == y && o.X == x {
			return o.V
		}
	}
	return clamp16(f.Base + f.Amp*((y*7+x*13+f.Salt*5)%11))
}

func detRun(cfg detCfg, evs []detFrame) []detObs {
	log.SetOutput(ioutil.Discard)
	cam := testCam{cfg.W, cfg.H, 9}
	args := config.ThermalMotion{DynamicThreshold: cfg.Dyn, TempThresh: uint16(cfg.Thresh), TempThreshMin: uint16(cfg.TMin), TempThreshMax: uint16(cfg.TMax),
		DeltaThresh: uint16(cfg.Delta), CountThresh: cfg.Count, FrameCompareGap: cfg.Gap, UseOneDiffOnly: cfg.One, WarmerOnly: cfg.Warmer, EdgePixels: cfg.Edge}
	d := motion.NewMotionDetector(args, cfg.Preview, cam)
	var obs []detObs
	fr := cptvframe.NewFrame(cam)
	for _, e := range evs {
		var o detObs
		if e.Reset {
			d.Reset(cam)
		} else {
			for y := 0; y < cfg.H; y++ {
				for x := 0; x < cfg.W; x++ {
					fr.Pix[y][x] = uint16(e.pixel(y, x))
				}
			}
			fr.Status = cptvframe.Telemetry{TimeOn: time.Duration(e.TimeOn), LastFFCTime: time.Duration(e.LastFF)}
			o.Motion = d.Detect(fr)
		}
		st := d.VerifState()
		o.Thresh = int(st.TempThresh)
		o.BgFrames = st.BackgroundFrames
		if cfg.Dyn {
			for y := 0; y < cfg.H; y++ {
				for x := 0; x < cfg.W; x++ {
					o.Bg = append(o.Bg, int(st.Background.Pix[y][x]))
					o.WSum += int64(math.Float32bits(st.Weights[y][x])) * int64(1+y*cfg.W+x) % 1000000007
				}
			}
			o.WSum %= 1000000007
		}
		obs = append(obs, o)
	}
	return obs
}

func detGenCfg(rng *rand.Rand, mode string) detCfg {
	var c detCfg
	c.W = 5 + rng.Intn(8)
	c.H = 4 + rng.Intn(6)
	if mode == "dyn" || mode == "pair-dyn" {
		c.W = 5 + rng.Intn(3)
		c.H = 4 + rng.Intn(3)
	}
	maxEdge := (min2(c.W, c.H) - 1) / 2
	c.Edge = rng.Intn(maxEdge + 1)
	if c.Edge > 2 {
		c.Edge = 2
	}
	c.Gap = 1 + rng.Intn(5)
	c.One = rng.Intn(2) == 0
	c.Warmer = rng.Intn(2) == 0
	c.Delta = []int{0, 1, 10, 50, 200}[rng.Intn(5)]
	c.Thresh = []int{0, 2900, 3000, 3100}[rng.Intn(4)]
	c.Count = 1 + rng.Intn(4)
	c.Dyn = mode == "dyn" || mode == "pair-dyn"
	if c.Dyn {
		switch rng.Intn(4) {
		case 1:
			c.TMin = 2950
		case 2:
			c.TMax = 3050
		case 3:
			c.TMin, c.TMax = 2950, 3050
		}
		c.Preview = rng.Intn(4)
	} else if rng.Intn(2) == 0 {
		// limits that only concern the dynamic threshold: with a fixed threshold they must be ignored,
		// also when the configured threshold lies outside them
		switch rng.Intn(3) {
		case 0:
			c.TMin = c.Thresh + 60
		case 1:
			c.TMax = c.Thresh - 60
			if c.TMax < 1 {
				c.TMax = 1
			}
		case 2:
			c.TMin, c.TMax = 2950, 3050
		}
	}
	return c
}

func min2(a, b int) int {
	if a < b {
		return a
	}
	return b
}

// a stream: a scene at level ~3000 with planted hot pixels moving around, values at the
// threshold / delta boundaries, optional FFC events and resets
func detGenStream(rng *rand.Rand, c detCfg, mode string) []detFrame {
	n := 8 + rng.Intn(28)
	var evs []detFrame
	interval := []int64{2e9, 3e9, 5e9, 9999999999, 10e9, 1e9}[rng.Intn(6)]
	ton := int64(60e9)
	last := int64(1e9)
	base := []int{2800, 2950, 3000, 3050, 100, 40000}[rng.Intn(6)]
	amp := rng.Intn(4)
	if mode == "dyn" || mode == "pair-dyn" {
		base = []int{2800, 2940, 3000, 3060, 3200}[rng.Intn(5)]
		amp = rng.Intn(3)
	}
	ffc := mode == "ffc" || mode == "pair-ffc" || (mode == "dyn" && rng.Intn(2) == 0) ||
		((mode == "pair-cold" || mode == "pair-border") && rng.Intn(3) == 0) // FFC periods (of every parity) also in the paired streams
	resets := mode != "pair-ffc" && rng.Intn(3) == 0
	T := c.Thresh
	vals := []int{T - 1, T, T + 1, T + c.Delta, T + c.Delta + 1, T + c.Delta - 1, 0, 65535, base + c.Delta + 1, base + 2*c.Delta + 5, base - c.Delta - 1}
	drift := 0
	for i := 0; i < n; i++ {
		if resets && rng.Intn(9) == 0 {
			evs = append(evs, detFrame{Reset: true})
		}
		if ffc && rng.Intn(7) == 0 {
			last = ton // FFC now
			if rng.Intn(3) == 0 {
				last = ton - int64(rng.Intn(3))*interval
			}
		}
		if mode == "dyn" {
			drift += rng.Intn(7) - 2 // slow warming mostly
		}
		f := detFrame{Base: base + drift, Amp: amp, Salt: rng.Intn(3), TimeOn: ton, LastFF: last}
		if rng.Intn(3) > 0 {
			f.Salt = 0
		}
		k := rng.Intn(c.Count + 3)
		for j := 0; j < k; j++ {
			y, x := rng.Intn(c.H), rng.Intn(c.W)
			if rng.Intn(4) > 0 && c.H-2*c.Edge > 0 && c.W-2*c.Edge > 0 { // mostly interior
				y = c.Edge + rng.Intn(c.H-2*c.Edge)
				x = c.Edge + rng.Intn(c.W-2*c.Edge)
			}
			f.Ov = append(f.Ov, detOv{y, x, clamp16(vals[rng.Intn(len(vals))])})
		}
		evs = append(evs, f)
		ton += interval
	}
	return evs
}

func detMutate(rng *rand.Rand, c detCfg, evs []detFrame, mode string) []detFrame {
	out := make([]detFrame, len(evs))
	for i, f := range evs {
		g := f
		g.Ov = append([]detOv(nil), f.Ov...)
		if !f.Reset {
			for k := 0; k < 1+rng.Intn(4); k++ {
				y, x := rng.Intn(c.H), rng.Intn(c.W)
				onEdge := y < c.Edge || x < c.Edge || y >= c.H-c.Edge || x >= c.W-c.Edge
				switch mode {
				case "pair-border", "pair-dyn":
					if onEdge {
						g.Ov = append([]detOv{{y, x, []int{0, 65535, rng.Intn(65536)}[rng.Intn(3)]}}, g.Ov...)
					}
				case "pair-cold":
					// only where the original value is <= thresh: replace by another value <= thresh
					if f.pixel(y, x) <= c.Thresh {
						g.Ov = append([]detOv{{y, x, rng.Intn(c.Thresh + 1)}}, g.Ov...)
					}
				}
			}
		}
		out[i] = g
	}
	return out
}

// ---- Coq printing ----
func detFrameCoq(f detFrame) string {
	if f.Reset {
		return "XReset"
	}
	var ov []string
	for _, o := range f.Ov {
		ov = append(ov, fmt.Sprintf("(%d,%d,%d)", o.Y, o.X, o.V))
	}
	return fmt.Sprintf("XFrame %s %d %d %s %d %d", zs(f.Base), f.Amp, f.Salt, coqList(ov), f.TimeOn, f.LastFF)
}

func detObsCoq(o detObs, dyn bool) string {
	return fmt.Sprintf("mkO %s %d %d %s %d", coqBool(o.Motion), o.Thresh, o.BgFrames, zlist(o.Bg), o.WSum)
}

func detCoq(in detInput, obs, obs2 []detObs) string {
	c := in.Cfg
	cfg := fmt.Sprintf("(mkD %d %d %d %d %s %d %d %s %s %d %d %d %d)", c.W, c.H, c.Edge, c.Gap, coqBool(c.One), c.Delta, c.Count,
		coqBool(c.Warmer), coqBool(c.Dyn), c.Thresh, c.TMin, c.TMax, c.Preview)
	pr := func(evs []detFrame, obs []detObs) string {
		var ss []string
		for i, e := range evs {
			ss = append(ss, fmt.Sprintf("(%s,%s)", detFrameCoq(e), detObsCoq(obs[i], c.Dyn)))
		}
		return coqList(ss)
	}
	modes := map[string]int{"fixed": 0, "ffc": 1, "dyn": 2, "pair-border": 3, "pair-cold": 4, "pair-ffc": 5, "pair-dyn": 6}
	return fmt.Sprintf("mkCase %s %d %d %s %s", cfg, modes[in.Mode], in.PairAt, pr(in.Evs, obs), pr(in.Evs2, obs2))
}

func detRunner(modes []string) propRunner {
	return func(rng *rand.Rand, n int, tier string, emit func(Case)) {
		var rin detInput
		if loadReplay(&rin) {
			obs := detRun(rin.Cfg, rin.Evs)
			var obs2 []detObs
			if rin.Evs2 != nil {
				obs2 = detRun(rin.Cfg, rin.Evs2)
			}
			emit(Case{Coq: detCoq(rin, obs, obs2), Input: rin, Impl: []interface{}{obs, obs2}, Key: "replay", Nontriv: true})
			return
		}
		for i := 0; i < n; i++ {
			mode := modes[i%len(modes)]
			in := detInput{Mode: mode}
			in.Cfg = detGenCfg(rng, mode)
			in.Evs = detGenStream(rng, in.Cfg, mode)
			switch mode {
			case "pair-border", "pair-cold", "pair-dyn":
				in.Evs2 = detMutate(rng, in.Cfg, in.Evs, mode)
			case "pair-ffc":
				// second stream: same shape, different content strictly before the first
				// affected frame of some FFC period
				in.Evs2 = append([]detFrame(nil), in.Evs...)
				first := -1
				var cands []int
				prevAff := false
				for k, f := range in.Evs {
					aff := f.TimeOn-f.LastFF < 10e9
					if aff && !prevAff && k > 0 {
						cands = append(cands, k)
					}
					prevAff = aff
				}
				if len(cands) > 0 {
					first = cands[rng.Intn(len(cands))]
				} else {
					first = 0
				}
				in.PairAt = first
				for k := 0; k < first; k++ {
					g := in.Evs[k]
					g.Base = g.Base + 300 + rng.Intn(500)
					g.Salt = rng.Intn(5)
					g.Ov = nil
					for j := 0; j < rng.Intn(4); j++ {
						g.Ov = append(g.Ov, detOv{rng.Intn(in.Cfg.H), rng.Intn(in.Cfg.W), rng.Intn(65536)})
					}
					in.Evs2[k] = g
				}
			}
			obs := detRun(in.Cfg, in.Evs)
			var obs2 []detObs
			if in.Evs2 != nil {
				obs2 = detRun(in.Cfg, in.Evs2)
			}
			motions, ffcs, resets, thchg := 0, 0, 0, 0
			var kb strings.Builder
			fmt.Fprintf(&kb, "%v:", in.Cfg)
			for k, o := range obs {
				if o.Motion {
					motions++
					kb.WriteByte('1')
				} else {
					kb.WriteByte('0')
				}
				if in.Evs[k].Reset {
					resets++
					kb.WriteByte('r')
				} else if in.Evs[k].TimeOn-in.Evs[k].LastFF < 10e9 {
					ffcs++
					kb.WriteByte('f')
				}
				if k > 0 && o.Thresh != obs[k-1].Thresh {
					thchg++
				}
			}
			fmt.Fprintf(&kb, "%d", obs[len(obs)-1].Thresh)
			tags := []string{"mode=" + mode}
			add := func(c bool, t string) {
				if c {
					tags = append(tags, t)
				}
			}
			add(motions > 0, "has-motion")
			add(motions > 0 && motions < len(obs), "mixed-verdicts")
			add(ffcs > 0, "ffc-frames")
			add(resets > 0, "resets")
			add(thchg > 0, "threshold-changes")
			add(in.Cfg.One, "one-diff")
			add(!in.Cfg.One, "two-diff")
			add(in.Cfg.Warmer, "warmer-only")
			emit(Case{Coq: detCoq(in, obs, obs2), Input: in, Impl: []interface{}{obs, obs2}, Tags: tags,
				Nontriv: motions > 0 && motions < len(obs), Key: kb.String()})
		}
	}
}

func init() {
	runners["DET07"] = detRunner([]string{"fixed"})
	runners["DET08"] = detRunner([]string{"pair-border", "pair-cold", "pair-dyn"})
	runners["DET09"] = detRunner([]string{"ffc", "pair-ffc", "dyn"})
	runners["DET15"] = detRunner([]string{"dyn"})
}
