package main

// RECONN (C14) / WRECONN (C18): one daemon process serving several dozen connections of a 60 fps
// camera in a row (every bad frame makes the camera daemon restart the camera, i.e. reconnect).
// Every connection must be served like the first: header read, frames delivered, connection
// ended by the end of the stream - the process must not die in between.

import (
	"bytes"
	"encoding/json"
	"fmt"
	"io/ioutil"
	"math/rand"
	"net"
	"os"
	"path/filepath"
	"strings"
	"time"
)

type reconnInput struct {
	Conns  int `json:"connections"`
	FPS    int `json:"fps"`
	Frames int `json:"frames_per_connection"`
}

func reconnRun(in reconnInput) (ok bool, why string, served int) {
	dir, _ := ioutil.TempDir(runDir(), "reconn")
	defer os.RemoveAll(dir)
	out := filepath.Join(dir, "out")
	os.Mkdir(out, 0755)
	sock := filepath.Join(dir, "s")
	toml := fmt.Sprintf("[lepton]\nframe-output = %q\n[thermal-recorder]\noutput-dir = %q\nmin-disk-space-mb = 0\n[thermal-throttler]\nactivate = false\n", sock, out)
	ioutil.WriteFile(filepath.Join(dir, "config.toml"), []byte(toml), 0644)
	d := startDriver(buildDir()+"/tr-driver", "serve", fmt.Sprintf("%s %d 0", dir, in.Conns), "TZ=UTC")
	defer func() { d.in.Close(); d.cmd.Process.Kill(); d.cmd.Wait() }()
	hdr := fmt.Sprintf("ResX: 8\nResY: 6\nFrameSize: 96\nModel: boson\nBrand: flir\nFPS: %d\nCameraSerial: 5\nFirmware: 1.0.0\n\n", in.FPS)
	frame := bytes.Repeat([]byte{0x10, 0x27}, 48)
	for i := 0; i < in.Conns; i++ {
		line, err := d.out.ReadString('\n')
		if err != nil || !strings.Contains(line, "listening") {
			return false, fmt.Sprintf("connection %d: the daemon is gone (%q)", i+1, strings.TrimSpace(line)), i
		}
		conn, err := net.Dial("unix", sock)
		if err != nil {
			return false, fmt.Sprintf("connection %d: %v", i+1, err), i
		}
		conn.Write([]byte(hdr))
		for k := 0; k < in.Frames; k++ {
			conn.Write(frame)
		}
		time.Sleep(5 * time.Millisecond)
		conn.Close()
		line, err = d.out.ReadString('\n')
		var ev struct {
			Ev  string `json:"ev"`
			Err string `json:"err"`
		}
		if err != nil || json.Unmarshal([]byte(line), &ev) != nil || ev.Ev != "conn-end" {
			return false, fmt.Sprintf("connection %d of one process (fps %d): the daemon died while serving it", i+1, in.FPS), i
		}
		if ev.Err != "EOF" {
			return false, fmt.Sprintf("connection %d ended with %q, expected EOF", i+1, ev.Err), i
		}
	}
	return true, "", in.Conns
}

func init() {
	runners["RECONN"] = func(rng *rand.Rand, n int, tier string, emit func(Case)) {
		var rin reconnInput
		replay := loadReplay(&rin)
		for i := 0; i < n; i++ {
			in := reconnInput{Conns: 34 + rng.Intn(8), FPS: []int{60, 9, 30, 60}[i%4], Frames: 1 + rng.Intn(3)}
			if tier == "thorough" {
				in.Conns = 70
			}
			if replay {
				in = rin
			}
			ok, why, served := reconnRun(in)
			emit(Case{Coq: fmt.Sprintf("mkLag %s %d %d", coqBool(ok), 0, served), Input: in,
				Impl: map[string]interface{}{"ok": ok, "why": why, "served": served},
				Tags: []string{fmt.Sprintf("fps=%d", in.FPS), "reconnections"}, Nontriv: served >= 30, Key: fmt.Sprint("reconn", in.FPS, in.Conns, in.Frames)})
			if replay {
				return
			}
		}
	}
	runners["WRECONN"] = func(rng *rand.Rand, n int, tier string, emit func(Case)) {
		for i := 0; i < n; i++ {
			conns := 34 + rng.Intn(8)
			fps := []int{60, 9, 30, 60}[i%4]
			var wrin struct {
				Connections int `json:"connections"`
				FPS         int `json:"fps"`
			}
			wreplay := loadReplay(&wrin) && wrin.Connections > 0
			if i%2 == 1 {
				// more connections than the 256 frame buffers a connection circulates
				conns = 258 + rng.Intn(10)
			}
			if wreplay {
				conns, fps = wrin.Connections, wrin.FPS
			}
			var ins []wrInput
			for k := 0; k < conns; k++ {
				ins = append(ins, wrInput{Model: "boson", Brand: "flir", FPS: fps, ResX: 4, ResY: 2, FrameSize: 16, Frames: 2, Seed: rng.Int63(), Chunks: []int{4096}, GoMaxProcs: 2})
			}
			fs, line, _ := wrRunConns(ins, nil, false)
			ok, why := true, ""
			if len(fs) != conns {
				ok, why = false, fmt.Sprintf("connection %d of one process (fps %d): the daemon died while serving it (%s)", len(fs)+1, fps, strings.TrimSpace(line))
			}
			for k := range fs {
				var got [][]byte
				for _, f := range fs[k] {
					_, fr, err := cptrParse(f)
					if err != nil {
						ok, why = false, fmt.Sprintf("connection %d: file does not parse: %v", k+1, err)
					}
					got = append(got, fr...)
				}
				sent := wrFrames(ins[k])
				if len(got) != len(sent) {
					ok, why = false, fmt.Sprintf("connection %d: %d frames stored, %d sent", k+1, len(got), len(sent))
					continue
				}
				for j := range got {
					if !bytes.Equal(got[j], sent[j]) {
						ok, why = false, fmt.Sprintf("connection %d: frame %d differs", k+1, j)
					}
				}
			}
			emit(Case{Coq: fmt.Sprintf("mkLag %s %d %d", coqBool(ok), 0, len(fs)), Input: map[string]interface{}{"connections": conns, "fps": fps, "frames_per_connection": 2},
				Impl: map[string]interface{}{"ok": ok, "why": why, "served": len(fs)},
				Tags: []string{fmt.Sprintf("fps=%d", fps), "reconnections"}, Nontriv: len(fs) >= 30, Key: fmt.Sprint("wreconn", fps, conns)})
			if wreplay {
				return
			}
		}
	}
}
