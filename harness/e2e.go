package main

import (
	"fmt"
	"io"
	"io/ioutil"
	"math"
	"math/rand"
	"net"
	"os"
	"path/filepath"
	"sort"
	"strings"
	"syscall"
	"time"
	"unsafe"

	goconfig "github.com/TheCacophonyProject/go-config"
	cptv "github.com/TheCacophonyProject/go-cptv"
	yaml2 "gopkg.in/yaml.v2"
)

// ---- session description ----
type e2eItem struct {
	Clear  bool    `json:"clear,omitempty"`
	Base   int     `json:"base,omitempty"`
	Amp    int     `json:"amp,omitempty"`
	Salt   int     `json:"salt,omitempty"`
	Ov     []detOv `json:"ov,omitempty"`
	FFC    bool    `json:"ffc,omitempty"` // an FFC happens at this frame (Lepton)
	// the telemetry's FFC state field (status bits 4-5: 0 never, 1 imminent, 2 running, 3 complete); stored nowhere,
	// and must not change what happens to the frame - a bad frame is bad whatever the telemetry says
	FFCState int `json:"ffc_state,omitempty"`
	Poison bool    `json:"starts_with_marker_bytes,omitempty"` // Boson: the frame's first five bytes are "clear"
	Temp   int     `json:"fpatemp_centik,omitempty"`
	TempFF int     `json:"fpatemp_lastffc_centik,omitempty"`
}
type e2eMotion struct {
	Set                          map[string]bool // which keys are written to config.toml
	Dyn, One, Warmer             bool
	Thresh, TMin, TMax, Delta    int
	Count, Gap, Trigger, Edge    int
}
type e2eInput struct {
	Format, Model      string
	Prelude            *e2eInput `json:",omitempty"` // an earlier connection served by the same process
	W, H, FPS          int
	Serial             int
	Firmware           string
	MinSecs, MaxSecs   int
	PreviewSecs        int
	Const              bool
	Throttle           string // off | transparent | impossible | tight (4 s bucket, 1 s refill: cuts and mid-event restarts)
	PaceMs             int    `json:",omitempty"` // > 0: wait this many milliseconds after every frame
	DeviceName         string
	DeviceID           int
	Lat, Long          float32
	Alt, Acc           float32
	WindowClosed       bool
	DiskFull           bool
	DiskMode           int    `json:",omitempty"` // 0: min-disk-space 0 / huge (DiskFull); 1: just below the space available; 2: between available and free (reserved blocks)
	MinDiskMB          uint64 `json:",omitempty"` // set at run time for DiskMode 1, 2
	LocMode            int    `json:",omitempty"` // 0 full [location]; 1 no section; 2 no latitude/longitude; 3 latitude only
	Motion             e2eMotion
	Items              []e2eItem
	Chunks             []int
	SetRecorderDefaults bool // leave min/max/preview to the defaults (10/600/5)
	// > 0: item BurstAt (a bad frame) and the two items after it are written to the socket in ONE piece, without
	// waiting for the recorder in between: when it handles the bad frame the following frames are already in its buffer
	BurstAt int `json:",omitempty"`
	// the [thermal-motion] section of config.toml holds the PRELUDE's own settings while the prelude connection is
	// served and is rewritten to this session's before the camera reconnects (the daemon re-reads it per connection)
	PreludeOwnMotion bool `json:",omitempty"`
}

type e2eFile struct {
	Thresh int   `json:"thresh"`
	Bg     []int `json:"bg"`
	IDs    []int `json:"ids"`
}
type e2eObs struct {
	Motion     []e2eFile `json:"motion_files"`
	Const      []e2eFile `json:"const_files"`
	ContentOK  bool      `json:"content_ok"`
	HeaderOK   bool      `json:"header_ok"`
	Why        string    `json:"why,omitempty"`
	Leftover   []string  `json:"leftover_names"`
	ConnErr    string    `json:"conn_end"`
	ElapsedMs  int64     `json:"elapsed_ms,omitempty"` // wall time of the connection under test
}

func (in e2eInput) effMotion() goconfig.ThermalMotion {
	var m goconfig.ThermalMotion
	if in.Model == "lepton3.5" {
		m = goconfig.ThermalMotion{DynamicThreshold: true, TempThresh: 28000, DeltaThresh: 200, CountThresh: 3, FrameCompareGap: 45, TriggerFrames: 2, UseOneDiffOnly: true, WarmerOnly: true, EdgePixels: 1}
	} else {
		m = goconfig.ThermalMotion{DynamicThreshold: true, TempThresh: 2900, DeltaThresh: 50, CountThresh: 3, FrameCompareGap: 45, TriggerFrames: 2, UseOneDiffOnly: true, WarmerOnly: true, EdgePixels: 1}
	}
	s, x := in.Motion.Set, in.Motion
	if s["dynamic-threshold"] {
		m.DynamicThreshold = x.Dyn
	}
	if s["temp-thresh"] {
		m.TempThresh = uint16(x.Thresh)
	}
	if s["temp-thresh-min"] {
		m.TempThreshMin = uint16(x.TMin)
	}
	if s["temp-thresh-max"] {
		m.TempThreshMax = uint16(x.TMax)
	}
	if s["delta-thresh"] {
		m.DeltaThresh = uint16(x.Delta)
	}
	if s["count-thresh"] {
		m.CountThresh = x.Count
	}
	if s["frame-compare-gap"] {
		m.FrameCompareGap = x.Gap
	}
	if s["use-one-diff-only"] {
		m.UseOneDiffOnly = x.One
	}
	if s["trigger-frames"] {
		m.TriggerFrames = x.Trigger
	}
	if s["warmer-only"] {
		m.WarmerOnly = x.Warmer
	}
	if s["edge-pixels"] {
		m.EdgePixels = x.Edge
	}
	return m
}

func (in e2eInput) recSecs() (min, max, preview int) {
	if in.SetRecorderDefaults {
		return 10, 600, 5
	}
	return in.MinSecs, in.MaxSecs, in.PreviewSecs
}

func (in e2eInput) toml(out, sock string) string {
	var sb strings.Builder
	b := func(v bool) string {
		if v {
			return "true"
		}
		return "false"
	}
	fmt.Fprintf(&sb, "[device]\nid = %d\nname = %q\n\n", in.DeviceID, in.DeviceName)
	fmt.Fprintf(&sb, "[lepton]\nframe-output = %q\n\n", sock)
	switch in.LocMode {
	case 0:
		fmt.Fprintf(&sb, "[location]\nlatitude = %v\nlongitude = %v\naltitude = %v\naccuracy = %v\ntimestamp = 2021-06-01T10:20:30Z\n\n", in.Lat, in.Long, in.Alt, in.Acc)
	case 2:
		fmt.Fprintf(&sb, "[location]\naltitude = %v\naccuracy = %v\ntimestamp = 2021-06-01T10:20:30Z\n\n", in.Alt, in.Acc)
	case 3:
		fmt.Fprintf(&sb, "[location]\nlatitude = %v\n\n", in.Lat)
	}
	fmt.Fprintf(&sb, "[thermal-recorder]\noutput-dir = %q\nconstant-recorder = %s\n", out, b(in.Const))
	if in.DiskMode > 0 {
		fmt.Fprintf(&sb, "min-disk-space-mb = %d\n", in.MinDiskMB)
	} else if in.DiskFull {
		sb.WriteString("min-disk-space-mb = 1000000000\n")
	} else {
		sb.WriteString("min-disk-space-mb = 0\n")
	}
	if !in.SetRecorderDefaults {
		fmt.Fprintf(&sb, "min-secs = %d\nmax-secs = %d\npreview-secs = %d\n", in.MinSecs, in.MaxSecs, in.PreviewSecs)
	}
	sb.WriteString("\n[thermal-throttler]\n")
	switch in.Throttle {
	case "off":
		sb.WriteString("activate = false\n")
	case "transparent":
		sb.WriteString("activate = true\nbucket-size = \"10m\"\nmin-refill = \"10m\"\n")
	case "impossible":
		sb.WriteString("activate = true\nbucket-size = \"1s\"\nmin-refill = \"10m\"\n")
	case "tight":
		sb.WriteString("activate = true\nbucket-size = \"4s\"\nmin-refill = \"1s\"\n")
	}
	sb.WriteString("\n[windows]\n")
	if in.WindowClosed {
		t := time.Now().UTC()
		fmt.Fprintf(&sb, "start-recording = %q\nstop-recording = %q\n", t.Add(6*time.Hour).Format("15:04"), t.Add(7*time.Hour).Format("15:04"))
	} else {
		sb.WriteString("start-recording = \"12:00\"\nstop-recording = \"12:00\"\n")
	}
	sb.WriteString("\n[thermal-motion]\n")
	s, x := in.Motion.Set, in.Motion
	w := func(k string, v interface{}) {
		if s[k] {
			fmt.Fprintf(&sb, "%s = %v\n", k, v)
		}
	}
	w("dynamic-threshold", b(x.Dyn))
	w("temp-thresh", x.Thresh)
	w("temp-thresh-min", x.TMin)
	w("temp-thresh-max", x.TMax)
	w("delta-thresh", x.Delta)
	w("count-thresh", x.Count)
	w("frame-compare-gap", x.Gap)
	w("use-one-diff-only", b(x.One))
	w("trigger-frames", x.Trigger)
	w("warmer-only", b(x.Warmer))
	w("edge-pixels", x.Edge)
	return sb.String()
}

// pixel content of frame number idx (0-based among frames): compact description + id in two
// border pixels of row 0 (edge-pixels >= 1 in every session)
func (in e2eInput) pixels(it e2eItem, idx int) [][]int {
	f := detFrame{Base: it.Base, Amp: it.Amp, Salt: it.Salt, Ov: it.Ov}
	pix := make([][]int, in.H)
	for y := range pix {
		pix[y] = make([]int, in.W)
		for x := range pix[y] {
			pix[y][x] = f.pixel(y, x)
		}
	}
	pix[0][0] = idx + 1
	pix[0][1] = 7
	if it.Poison { // little-endian: 63 6c 65 61 72 ..
		pix[0][0], pix[0][1], pix[0][2] = 0x6c63, 0x6165, 0x1172
	}
	return pix
}

const e2eT0 = 60000
const e2eDT = 111

func (in e2eInput) rawFrames() (raws [][]byte, timeon, lastffc []int) {
	last := 1000
	idx := 0
	for _, it := range in.Items {
		if it.Clear {
			raws = append(raws, []byte("clear"))
			timeon = append(timeon, -1)
			lastffc = append(lastffc, -1)
			continue
		}
		ton := e2eT0 + idx*e2eDT
		if it.FFC {
			last = ton
		}
		pix := in.pixels(it, idx)
		var raw []byte
		if in.Format == "lepton" {
			raw = make([]byte, 640, 640+2*in.W*in.H)
			put32 := func(off int, v uint32) {
				raw[off], raw[off+1], raw[off+2], raw[off+3] = byte(v>>8), byte(v), byte(v>>24), byte(v>>16)
			}
			put16 := func(off int, v int) { raw[off], raw[off+1] = byte(v>>8), byte(v) }
			put32(2, uint32(ton))
			put32(40, uint32(idx))
			put16(44, 0)
			raw[7] = byte(it.FFCState&3) << 4
			put16(48, it.Temp)
			put16(58, it.TempFF)
			put32(60, uint32(last))
			for y := range pix {
				for x := range pix[y] {
					raw = append(raw, byte(pix[y][x]>>8), byte(pix[y][x]))
				}
			}
			timeon = append(timeon, ton)
			lastffc = append(lastffc, last)
		} else {
			for y := range pix {
				for x := range pix[y] {
					raw = append(raw, byte(pix[y][x]), byte(pix[y][x]>>8))
				}
			}
			timeon = append(timeon, 60000)
			lastffc = append(lastffc, 1000)
		}
		raws = append(raws, raw)
		idx++
	}
	return
}

func decodeFull(path string, in e2eInput, sentPix [][][]int, ton, lffc []int, temps [][2]int, expHdr func(r *cptv.FileReader, thresh int) string) (f e2eFile, why string) {
	r, err := cptv.NewFileReader(path)
	if err != nil {
		return f, "open/header: " + err.Error()
	}
	defer r.Close()
	// threshold from the motion configuration text
	mc := r.MotionConfig()
	f.Thresh = -1
	for _, line := range strings.Split(mc, "\n") {
		if strings.HasPrefix(line, "triggeredthresh: ") {
			fmt.Sscanf(line, "triggeredthresh: %d", &f.Thresh)
		}
	}
	why = expHdr(r, f.Thresh)
	fr := r.EmptyFrame()
	first := true
	n := 0
	for {
		err := r.ReadFrame(fr)
		if err == io.EOF {
			break
		}
		if err != nil {
			return f, "frame: " + err.Error()
		}
		n++
		if first {
			first = false
			if !r.HasBackgroundFrame() || !fr.Status.BackgroundFrame {
				why += " no-background-frame-first"
			}
			for y := range fr.Pix {
				for x := range fr.Pix[y] {
					f.Bg = append(f.Bg, int(fr.Pix[y][x]))
				}
			}
			continue
		}
		if fr.Status.BackgroundFrame {
			why += " background-frame-not-first"
		}
		id := int(fr.Pix[0][0]) - 1
		f.IDs = append(f.IDs, id)
		if id < 0 || id >= len(sentPix) {
			why += fmt.Sprintf(" unknown-frame-id-%d", id)
			continue
		}
		for y := range fr.Pix {
			for x := range fr.Pix[y] {
				if int(fr.Pix[y][x]) != sentPix[id][y][x] {
					why += fmt.Sprintf(" pixel-mismatch-frame-%d", id)
					y = len(fr.Pix) - 1
					break
				}
			}
		}
		if int(fr.Status.TimeOn/time.Millisecond) != ton[id] || int(fr.Status.LastFFCTime/time.Millisecond) != lffc[id] {
			why += fmt.Sprintf(" time-mismatch-frame-%d(%v,%v)", id, fr.Status.TimeOn, fr.Status.LastFFCTime)
		}
		if in.Format == "lepton" {
			want := float64(float32(float64(temps[id][0]-27315) / 100))
			want2 := float64(float32(float64(temps[id][1]-27315) / 100))
			if fr.Status.TempC != want || fr.Status.LastFFCTempC != want2 {
				why += fmt.Sprintf(" temp-mismatch-frame-%d", id)
			}
		}
	}
	if int(r.NumFrames()) != n {
		why += " numframes-header-mismatch"
	}
	return f, why
}

// fixDisk chooses min-disk-space at the boundary of the space actually available on the file
// system the output directory will be on (done before the run so that the model sees the same
// "disk check passes / fails" as the daemon).
func (in *e2eInput) fixDisk() {
	if in.DiskMode == 0 {
		return
	}
	// the recorder must compare min-disk-space with the space available to it (f_bavail), not
	// with the free space including the blocks reserved for root (f_bfree)
	var fs syscall.Statfs_t
	syscall.Statfs(runDir(), &fs)
	avail := fs.Bavail * uint64(fs.Bsize) / 1024 / 1024
	free := fs.Bfree * uint64(fs.Bsize) / 1024 / 1024
	// margins are generous (other processes fill and free the same file system while a session runs):
	// what is tested is WHICH figure is compared, not the last megabyte
	slack := avail / 32
	if slack < 2048 {
		slack = 2048
	}
	switch {
	case in.DiskMode == 1 && avail > 2*slack:
		in.MinDiskMB, in.DiskFull = avail-slack, false // enough space, with the figure in the right order of magnitude
	case in.DiskMode == 2 && free > avail+2*slack:
		in.MinDiskMB, in.DiskFull = avail+(free-avail)/2, true // not enough for us although "free" says so
	case in.DiskMode == 2:
		in.MinDiskMB, in.DiskFull = 2*avail+slack, true
	default:
		in.DiskMode, in.DiskFull = 0, false
	}
}

func e2eRun(in e2eInput) e2eObs {
	var o e2eObs
	dir, _ := ioutil.TempDir(runDir(), "e2e")
	defer os.RemoveAll(dir)
	out := filepath.Join(dir, "out")
	os.Mkdir(out, 0755)
	sock := filepath.Join(dir, "s")
	ioutil.WriteFile(filepath.Join(dir, "config.toml"), []byte(in.toml(out, sock)), 0644)
	if in.Prelude != nil && in.PreludeOwnMotion {
		first := in
		first.Motion = in.Prelude.Motion
		ioutil.WriteFile(filepath.Join(dir, "config.toml"), []byte(first.toml(out, sock)), 0644)
	}
	nconn := 1
	if in.Prelude != nil {
		nconn = 2
	}
	d := startDriver(buildDir()+"/tr-driver", "serve", fmt.Sprintf("%s %d 1", dir, nconn), "TZ=UTC")
	defer func() { d.in.Close(); d.cmd.Wait() }()
	// one connection: wait for the listener, send the camera header and the frames, close, wait for the end
	session := func(in e2eInput) (connErr, why string) {
		for {
			line, err := d.out.ReadString('\n')
			if err != nil {
				return "", "driver died before listening: " + line
			}
			if strings.Contains(line, "listening") {
				break
			}
			if strings.Contains(line, "error") {
				return "", "driver: " + line
			}
		}
		conn, err := net.Dial("unix", sock)
		if err != nil {
			return "", err.Error()
		}
		frameSize := 2 * in.W * in.H
		if in.Format == "lepton" {
			frameSize += 640
		}
		hdr := hdrEncode(hdrDesc{ResX: in.W, ResY: in.H, FPS: in.FPS, FrameSize: frameSize, Serial: in.Serial, Brand: "flir", Model: in.Model, Firmware: in.Firmware})
		raws, _, _ := in.rawFrames()
		ci := 0
		send := func(b []byte) {
			for len(b) > 0 {
				n := in.Chunks[ci%len(in.Chunks)]
				ci++
				if n > len(b) {
					n = len(b)
				}
				conn.Write(b[:n])
				b = b[n:]
			}
		}
		send(append(hdr, '\n'))
		burstSkip := 0
		for ri, r := range raws {
			if burstSkip > 0 { // already sent, in one piece with the bad frame before it
				burstSkip--
				continue
			}
			if string(r) == "clear" && (ri+in.Serial)%2 == 0 {
				// the camera's marker arriving in two reads: the first part alone, nothing else buffered
				k := 1 + (ri+in.Serial/2)%4
				waitDrained(conn)
				conn.Write(r[:k])
				waitDrained(conn)
				time.Sleep(2 * time.Millisecond)
				conn.Write(r[k:])
				waitDrained(conn)
				continue
			}
			if in.BurstAt > 0 && ri == in.BurstAt && ri+2 < len(raws) {
				conn.Write(append(append(append([]byte{}, r...), raws[ri+1]...), raws[ri+2]...))
				waitDrained(conn)
				time.Sleep(1500 * time.Microsecond)
				burstSkip = 2
				continue
			}
			send(r)
			// Pace like a camera: wait until the recorder has read the frame, then a little more.
			// File names have millisecond resolution; in the field frames are >= 16 ms apart, here
			// a burst of frames processed within one millisecond would make two recordings share a name.
			waitDrained(conn)
			if in.PaceMs > 0 {
				time.Sleep(time.Duration(in.PaceMs) * time.Millisecond)
			}
			time.Sleep(1500 * time.Microsecond)
		}
		conn.Close()
		for {
			line, err := d.out.ReadString('\n')
			if err != nil {
				return "", "driver died"
			}
			if strings.Contains(line, "conn-end") {
				return strings.TrimSpace(line), ""
			}
		}
	}
	if in.Prelude != nil {
		// An earlier connection of the same daemon process from a different camera: nothing of
		// it may influence the connection under test.  Its files are removed before that starts.
		pin := *in.Prelude
		pin.MinSecs, pin.MaxSecs, pin.PreviewSecs = in.MinSecs, in.MaxSecs, in.PreviewSecs
		if !in.PreludeOwnMotion {
			pin.Motion = in.Motion
		}
		if _, why := session(pin); why != "" {
			o.Why = "prelude: " + why
			return o
		}
		if in.PreludeOwnMotion {
			ioutil.WriteFile(filepath.Join(dir, "config.toml"), []byte(in.toml(out, sock)), 0644)
		}
		for _, dd := range []string{out, filepath.Join(out, "constant-recordings")} {
			fis, _ := ioutil.ReadDir(dd)
			for _, fi := range fis {
				if !fi.IsDir() {
					os.Remove(filepath.Join(dd, fi.Name()))
				}
			}
		}
		time.Sleep(3 * time.Millisecond)
	}
	t0 := time.Now()
	connErr, why := session(in)
	o.ElapsedMs = time.Since(t0).Milliseconds() + 1
	if why != "" {
		o.Why = why
		return o
	}
	o.ConnErr = connErr
	_, ton, lffc := in.rawFrames()
	// what was sent, per accepted-or-not frame index
	var sentPix [][][]int
	var tons, lffcs []int
	var temps [][2]int
	k := 0
	for i, it := range in.Items {
		if it.Clear {
			continue
		}
		sentPix = append(sentPix, in.pixels(it, k))
		tons = append(tons, ton[i])
		lffcs = append(lffcs, lffc[i])
		temps = append(temps, [2]int{it.Temp, it.TempFF})
		k++
	}
	eff := in.effMotion()
	my, _ := yaml2.Marshal(eff)
	_, _, preview := in.recSecs()
	expHdr := func(r *cptv.FileReader, thresh int) string {
		var why string
		chk := func(c bool, what string) {
			if !c {
				why += " header:" + what
			}
		}
		chk(r.DeviceName() == in.DeviceName, "device-name")
		wantID := in.DeviceID
		if wantID < 0 {
			wantID = 0
		}
		chk(r.DeviceID() == wantID, "device-id")
		chk(r.BrandName() == "flir", "brand")
		chk(r.ModelName() == in.Model, "model")
		chk(r.SerialNumber() == in.Serial, "serial")
		chk(r.FirmwareVersion() == in.Firmware, "firmware")
		chk(r.ResX() == in.W && r.ResY() == in.H, "resolution")
		chk(r.FPS() == in.FPS, "fps")
		chk(r.PreviewSecs() == preview, "preview-secs")
		// what config.toml says about the location; keys that are absent read as zero / not set
		lat, long, alt, acc, hasTS := in.Lat, in.Long, in.Alt, in.Acc, true
		switch in.LocMode {
		case 1:
			lat, long, alt, acc, hasTS = 0, 0, 0, 0, false
		case 2:
			lat, long = 0, 0
		case 3:
			long, alt, acc, hasTS = 0, 0, 0, false
		}
		chk(r.Latitude() == lat && r.Longitude() == long, "location")
		wantAlt := alt
		if alt < 0 {
			wantAlt = 0
		}
		chk(r.Altitude() == wantAlt && r.Accuracy() == acc, "altitude/accuracy")
		if hasTS {
			chk(r.LocTimestamp().UTC().Equal(time.Date(2021, 6, 1, 10, 20, 30, 0, time.UTC)), "location-timestamp")
		} else {
			chk(r.LocTimestamp().IsZero(), "location-timestamp-absent")
		}
		chk(r.MotionConfig() == fmt.Sprintf("%striggeredthresh: %d\n", string(my), thresh), "motion-config")
		return why
	}
	o.ContentOK, o.HeaderOK = true, true
	for _, dd := range [][2]string{{"motion", out}, {"const", filepath.Join(out, "constant-recordings")}} {
		fis, _ := ioutil.ReadDir(dd[1])
		var names []string
		for _, fi := range fis {
			if fi.IsDir() {
				continue
			}
			if strings.HasSuffix(fi.Name(), ".cptv") {
				names = append(names, fi.Name())
			} else {
				o.Leftover = append(o.Leftover, dd[0]+":"+classify(fi.Name()))
			}
		}
		sort.Strings(names)
		for _, n := range names {
			f, why := decodeFull(filepath.Join(dd[1], n), in, sentPix, tons, lffcs, temps, expHdr)
			if why != "" {
				o.Why += " [" + n + ":" + why + "]"
				if strings.Contains(why, "header:") {
					o.HeaderOK = false
				}
				if strings.Contains(strings.ReplaceAll(why, "header:", ""), "-") && (strings.Contains(why, "mismatch") || strings.Contains(why, "frame") || strings.Contains(why, "open")) {
					o.ContentOK = false
				}
			}
			if dd[0] == "motion" {
				o.Motion = append(o.Motion, f)
			} else {
				o.Const = append(o.Const, f)
			}
		}
	}
	sort.Strings(o.Leftover)
	return o
}

// waitDrained polls the socket's output queue (bytes the peer has not read yet) until it is empty
func waitDrained(conn net.Conn) {
	uc, ok := conn.(*net.UnixConn)
	if !ok {
		return
	}
	rc, err := uc.SyscallConn()
	if err != nil {
		return
	}
	deadline := time.Now().Add(2 * time.Second)
	for time.Now().Before(deadline) {
		var q int32 = -1
		rc.Control(func(fd uintptr) {
			syscall.Syscall(syscall.SYS_IOCTL, fd, 0x5411 /* TIOCOUTQ / SIOCOUTQ */, uintptr(unsafe.Pointer(&q)))
		})
		if q <= 0 {
			return
		}
		time.Sleep(100 * time.Microsecond)
	}
}

// ---- generator ----
func e2eGen(rng *rand.Rand, i int) e2eInput {
	in := e2eGen1(rng, i)
	same := i%4 == 2
	if same {
		// (files are needed to see the header: the continuous recorder always writes some)
		in.Const, in.WindowClosed, in.DiskFull, in.DiskMode = constOK, false, false, 0
	}
	if rng.Intn(2) == 0 || same {
		// a first connection from another camera (other model / resolution / frame rate) before the one under test
		for try := 0; try < 20; try++ {
			p := e2eGen1(rng, i)
			// prefer pairs whose per-model motion defaults differ (lepton3.5 against the others)
			crosses := (p.Model == "lepton3.5") != (in.Model == "lepton3.5")
			if same {
				// the SAME camera model reconnects after [thermal-motion] was edited
				if p.Model == in.Model && p.Format == in.Format {
					if len(p.Items) > 50 {
						p.Items = p.Items[:50]
					}
					in.Prelude, in.PreludeOwnMotion = &p, true
					break
				}
				continue
			}
			if p.Model != in.Model && (crosses || try > 10) {
				if len(p.Items) > 50 {
					p.Items = p.Items[:50]
				}
				in.Prelude = &p
				break
			}
		}
	}
	return in
}

func e2eGen1(rng *rand.Rand, i int) e2eInput {
	var in e2eInput
	in.Format = []string{"lepton", "lepton", "boson"}[rng.Intn(3)]
	in.Model = "boson"
	if in.Format == "lepton" {
		in.Model = []string{"lepton3", "lepton3.5"}[rng.Intn(2)]
	}
	in.W, in.H = 8+rng.Intn(9), 6+rng.Intn(7)
	in.FPS = []int{1, 2, 3, 9}[rng.Intn(4)]
	in.Serial = rng.Intn(1 << 31)
	in.Firmware = []string{"1.2.3", "3.3.26", "1.2", "v9"}[rng.Intn(4)]
	in.MinSecs = 1 + rng.Intn(3)
	if in.FPS == 1 {
		in.MinSecs = 2 + rng.Intn(2) // recordings of at least 2 frames: distinct millisecond names
	}
	in.MaxSecs = in.MinSecs + rng.Intn(6)
	in.PreviewSecs = rng.Intn(3)
	in.SetRecorderDefaults = rng.Intn(8) == 0
	in.Const = rng.Intn(2) == 0 && constOK
	in.Throttle = []string{"off", "transparent", "transparent", "impossible"}[rng.Intn(4)]
	in.DeviceName = []string{"verif-cam", "possum-17", "a b c"}[rng.Intn(3)]
	in.DeviceID = []int{0, 7, 123456, -3}[rng.Intn(4)]
	in.Lat, in.Long = []float32{-43.5321, 0, 51.5}[rng.Intn(3)], []float32{172.6362, 0, -0.12}[rng.Intn(3)]
	in.Alt, in.Acc = []float32{0, 120.5, -1}[rng.Intn(3)], []float32{0, 15}[rng.Intn(2)]
	in.WindowClosed = rng.Intn(7) == 0
	in.DiskFull = rng.Intn(9) == 0
	if rng.Intn(4) == 0 { // min-disk-space at the boundary of the space actually available (set at run time)
		in.DiskMode = []int{1, 2, 2}[rng.Intn(3)]
		in.DiskFull = in.DiskMode == 2
		in.WindowClosed = false // the disk check must be what decides
		if in.Throttle == "impossible" {
			in.Throttle = "transparent"
		}
	}
	if in.Throttle == "impossible" && !in.SetRecorderDefaults && in.MinSecs+in.PreviewSecs < 2 {
		// "impossible" = a minimum clip (min-secs + preview-secs) larger than the 1 s bucket; min-secs 1 with
		// preview-secs 0 is exactly one bucket and CAN record
		in.PreviewSecs = 1
	}
	in.LocMode = []int{0, 0, 0, 1, 2, 3}[rng.Intn(6)]
	m := &in.Motion
	m.Set = map[string]bool{}
	keys := []string{"dynamic-threshold", "temp-thresh", "temp-thresh-min", "temp-thresh-max", "delta-thresh", "count-thresh", "frame-compare-gap", "use-one-diff-only", "trigger-frames", "warmer-only", "edge-pixels"}
	for _, k := range keys {
		m.Set[k] = rng.Intn(4) > 0
	}
	m.Set["edge-pixels"] = true
	m.Edge = rng.Intn(3) // 0: no border at all - a zero pixel anywhere makes the frame bad
	if i%6 == 1 {
		m.Edge = 0 // (this session gets a forced bad frame below: with no border it is a zero in the outermost ring)
	}
	m.Dyn, m.One, m.Warmer = rng.Intn(2) == 0, rng.Intn(2) == 0, rng.Intn(2) == 0
	lvl := 2900
	if in.Model == "lepton3.5" {
		lvl = 28000
	}
	m.Thresh = lvl + []int{-100, 0, 50}[rng.Intn(3)]
	m.TMin, m.TMax = []int{0, lvl - 30}[rng.Intn(2)], []int{0, lvl + 60}[rng.Intn(2)]
	m.Delta = []int{20, 50, 200}[rng.Intn(3)]
	m.Count = 1 + rng.Intn(3)
	m.Gap = 1 + rng.Intn(4)
	m.Trigger = 1 + rng.Intn(3)
	eff := in.effMotion()
	// scene: level around the threshold, a hot blob that appears, moves and disappears
	n := 60 + rng.Intn(120)
	base := lvl + 40 + rng.Intn(60)
	blob := false
	bx, by := eff.EdgePixels+1, eff.EdgePixels+1
	hot := int(eff.DeltaThresh)*2 + 80
	for k := 0; k < n; k++ {
		if rng.Intn(40) == 0 {
			in.Items = append(in.Items, e2eItem{Clear: true})
			if rng.Intn(3) == 0 { // a camera that restarts twice in a row sends two markers
				in.Items = append(in.Items, e2eItem{Clear: true})
			}
		}
		if rng.Intn(14) == 0 {
			blob = !blob
		}
		it := e2eItem{Base: base, Amp: rng.Intn(2), Salt: 0, Temp: 29000 + rng.Intn(2000), TempFF: 29500 + rng.Intn(500)}
		if blob {
			bx += rng.Intn(3) - 1
			by += rng.Intn(3) - 1
			if bx < eff.EdgePixels {
				bx = eff.EdgePixels
			}
			if by < eff.EdgePixels {
				by = eff.EdgePixels
			}
			if bx > in.W-eff.EdgePixels-3 {
				bx = in.W - eff.EdgePixels - 3
			}
			if by > in.H-eff.EdgePixels-3 {
				by = in.H - eff.EdgePixels - 3
			}
			hv := base + hot + (k%2)*(hot+30) // flickers so that consecutive frames differ
			for dy := 0; dy < 2; dy++ {
				for dx := 0; dx < 2; dx++ {
					it.Ov = append(it.Ov, detOv{by + dy, bx + dx, clamp16(hv)})
				}
			}
		}
		if in.Format == "lepton" && rng.Intn(45) == 0 {
			it.FFC = true
		}
		if in.Format == "lepton" {
			it.FFCState = []int{0, 0, 3, 3, 1, 2}[rng.Intn(6)]
		}
		if rng.Intn(50) == 0 { // a bad frame: zero pixel in the interior
			if in.Format == "lepton" {
				it.FFCState = []int{2, 2, 0, 3}[rng.Intn(4)]
			}
			it.Ov = append([]detOv{{eff.EdgePixels + rng.Intn(in.H-2*eff.EdgePixels), eff.EdgePixels + rng.Intn(in.W-2*eff.EdgePixels), 0}}, it.Ov...)
		}
		if rng.Intn(30) == 0 { // extreme values on the border and inside
			it.Ov = append(it.Ov, detOv{in.H - 1, in.W - 1, 65535}, detOv{in.H - 1, 0, 0})
		}
		in.Items = append(in.Items, it)
	}
	for k := 0; k < 1+rng.Intn(4); k++ {
		in.Chunks = append(in.Chunks, []int{1 + rng.Intn(7), 5, 640, 1 + rng.Intn(3000), 100000}[rng.Intn(5)])
	}
	if len(in.Chunks) == 1 && in.Chunks[0] < 8 {
		in.Chunks = append(in.Chunks, 4096)
	}
	if i%3 == 1 {
		// a bad frame in the middle of the stream, sent in one piece with the two items after it: when the recorder
		// handles the bad frame, they are already in its read buffer - processing must resume with exactly them
		for k := len(in.Items) / 2; k < len(in.Items); k++ {
			if !in.Items[k].Clear {
				by, bx := eff.EdgePixels+(in.H-2*eff.EdgePixels)/2, eff.EdgePixels+(in.W-2*eff.EdgePixels)/2
				if eff.EdgePixels == 0 {
					by, bx = 0, in.W-1 // edge-pixels = 0: the outermost ring is interior too
				}
				in.Items[k].Ov = append([]detOv{{by, bx, 0}}, in.Items[k].Ov...)
				in.BurstAt = k
				in.Const = constOK // (the continuous recorder shows what was accepted: its files end and restart at a bad frame)
				break
			}
		}
	}
	return in
}

// ---- Coq printing ----
func e2eCoq(in e2eInput, o e2eObs) string {
	eff := in.effMotion()
	mins, maxs, prev := in.recSecs()
	f := "Lepton"
	if in.Format == "boson" {
		f = "Boson"
	}
	dcfg := fmt.Sprintf("(mkD %d %d %d %d %s %d %d %s %s %d %d %d %d)", in.W, in.H, eff.EdgePixels, eff.FrameCompareGap, coqBool(eff.UseOneDiffOnly), eff.DeltaThresh, eff.CountThresh,
		coqBool(eff.WarmerOnly), coqBool(eff.DynamicThreshold), eff.TempThresh, eff.TempThreshMin, eff.TempThreshMax, prev*in.FPS)
	pcfg := fmt.Sprintf("(mkCfg %d %d %d %d %s)", prev*in.FPS+eff.TriggerFrames, mins*in.FPS, maxs*in.FPS, eff.TriggerFrames, coqBool(in.Const))
	scfg := fmt.Sprintf("(mkS %s %d %d %s %s %s %s %s)", f, in.H, in.W, pcfg, dcfg, coqBool(!in.WindowClosed), coqBool(!in.DiskFull), coqBool(in.Throttle == "impossible"))
	var items []string
	last := 1000
	idx := 0
	for _, it := range in.Items {
		if it.Clear {
			items = append(items, "YClear")
			continue
		}
		ton := e2eT0 + idx*e2eDT
		if it.FFC {
			last = ton
		}
		var ov []string
		for _, v := range it.Ov {
			ov = append(ov, fmt.Sprintf("(%d,%d,%d)", v.Y, v.X, v.V))
		}
		items = append(items, fmt.Sprintf("YFrame %d %d %d %d %s %d %d %d %d", idx, it.Base, it.Amp, it.Salt, coqList(ov), ton, last, it.Temp, it.TempFF))
		idx++
	}
	files := func(fs []e2eFile) string {
		var s []string
		for _, x := range fs {
			s = append(s, fmt.Sprintf("(%d,%s,%s)", x.Thresh, zlist(x.Bg), zlist(x.IDs)))
		}
		return coqList(s)
	}
	return fmt.Sprintf("mkCase %s %s %s %s %s %s", scfg, coqList(items), files(o.Motion), files(o.Const), coqBool(o.ContentOK), coqBool(o.HeaderOK))
}

var _ = math.Abs

func init() {
	// probe of the known finding: the 'clear' marker is in-band
	runners["INBAND"] = func(rng *rand.Rand, n int, tier string, emit func(Case)) {
		in := e2eGen(rand.New(rand.NewSource(7)), 0)
		in.Format, in.Model = "boson", "boson"
		in.Const, in.Throttle, in.WindowClosed, in.DiskFull = true, "off", false, false
		in.SetRecorderDefaults = false
		in.MinSecs, in.MaxSecs, in.PreviewSecs, in.FPS = 1, 2, 0, 2
		var items []e2eItem
		for k := 0; k < 30; k++ {
			items = append(items, e2eItem{Base: 3000, Amp: 1})
		}
		items[7].Poison = true
		in.Items = items
		o := e2eRun(in)
		emit(Case{Coq: e2eCoq(in, o), Input: in, Impl: o, Tags: []string{"probe:frame-starts-with-marker"}, Nontriv: true, Key: "inband",
			Extra: map[string]interface{}{"finding": "frame-prefix=636c656172", "expect_fail": true}})
	}
	// E2ETHR: sessions with a tight throttle (4 s bucket, refill of min+preview seconds of frames per
	// second) and continuous motion, paced in real time so that the bucket drains, the throttle cuts
	// the recording and re-opens it from WriteFrame once the budget is back.  Where the cuts fall
	// depends on the wall clock, so these sessions are judged here, file by file: every motion file
	// decodes with the expected header view, starts with a background frame, carries the threshold
	// in force (fixed threshold), holds consecutive frames equal to the frames sent, and the files
	// are disjoint and in stream order.
	runners["E2ETHR"] = func(rng *rand.Rand, n int, tier string, emit func(Case)) {
		for i := 0; i < n; i++ {
			in := e2eGen1(rng, i)
			in.Prelude = nil
			in.Throttle, in.PaceMs = "tight", 7
			in.FPS, in.MinSecs, in.PreviewSecs, in.MaxSecs = 3, 1, 1, 60
			in.SetRecorderDefaults, in.Const, in.WindowClosed, in.DiskFull = false, false, false, false
			in.Motion.Dyn = false
			in.Motion.Set["dynamic-threshold"] = true
			in.Motion.Trigger, in.Motion.Count, in.Motion.Gap, in.Motion.One = 2, 1, 1, true
			in.Motion.Set["trigger-frames"], in.Motion.Set["count-thresh"], in.Motion.Set["frame-compare-gap"], in.Motion.Set["use-one-diff-only"] = true, true, true, true
			in.Motion.Warmer = false // the blob flickers: with warmer-only every other frame would show no motion
			in.Motion.Set["warmer-only"] = true
			eff := in.effMotion()
			lvl := int(eff.TempThresh)
			hot := int(eff.DeltaThresh)*2 + 80
			in.Items = nil
			nfr := 330 + rng.Intn(60)
			for k := 0; k < nfr; k++ {
				it := e2eItem{Base: lvl + 60, Amp: 1, Temp: 29000, TempFF: 29500}
				hv := lvl + 60 + hot + (k%2)*(hot+30)
				for dy := 0; dy < 2; dy++ {
					for dx := 0; dx < 2; dx++ {
						it.Ov = append(it.Ov, detOv{eff.EdgePixels + 1 + dy, eff.EdgePixels + 1 + dx, clamp16(hv)})
					}
				}
				in.Items = append(in.Items, it)
			}
			o := e2eRun(in)
			ok, why := o.ContentOK && o.HeaderOK && o.Why == "", o.Why
			last := -1
			for _, f := range o.Motion {
				if f.Thresh != lvl {
					ok, why = false, why+fmt.Sprintf(" [threshold %d stored, %d in force]", f.Thresh, lvl)
				}
				if len(f.Bg) != in.W*in.H {
					ok, why = false, why+" [no background frame]"
				}
				for _, id := range f.IDs {
					if id != last+1 && !(last == -1 || id > last) {
						ok, why = false, why+fmt.Sprintf(" [frame %d after %d]", id, last)
					}
					last = id
				}
				for k := 1; k < len(f.IDs); k++ {
					if f.IDs[k] != f.IDs[k-1]+1 {
						ok, why = false, why+fmt.Sprintf(" [gap inside a file: %d then %d]", f.IDs[k-1], f.IDs[k])
					}
				}
			}
			// C05 through the real wiring: all frames that reached storage during the connection
			// (a window no longer than the connection) within bucket + 2 + 1.01 x refill earned
			stored := 0
			for _, f := range o.Motion {
				stored += len(f.IDs)
			}
			bucket, minFrames := 4*in.FPS, (in.MinSecs+in.PreviewSecs)*in.FPS
			bound := float64(bucket+2) + 1.010000001*float64(minFrames)*float64(o.ElapsedMs)/1000.0
			if float64(stored) > bound {
				ok, why = false, why+fmt.Sprintf(" [%d frames stored in %d ms: more than bucket %d + 2 + refill %d/s = %.1f]", stored, o.ElapsedMs, bucket, minFrames, bound)
			}
			emit(Case{Coq: fmt.Sprintf("mkLag %s %d %d", coqBool(ok), len(o.Motion), nfr), Input: in,
				Impl: map[string]interface{}{"ok": ok, "why": why, "motion_files": len(o.Motion), "frames_stored": stored, "elapsed_ms": o.ElapsedMs, "bound": bound, "ids_per_file": func() (l []int) {
					for _, f := range o.Motion {
						l = append(l, len(f.IDs))
					}
					return
				}()},
				Tags: []string{fmt.Sprintf("motion-files=%d", len(o.Motion)), "throttle=tight", "model=" + in.Model}, Nontriv: len(o.Motion) >= 2, Key: fmt.Sprint("thr", in.Serial)})
		}
	}
	runners["E2E"] = func(rng *rand.Rand, n int, tier string, emit func(Case)) {
		var rin e2eInput
		if loadReplay(&rin) {
			o := e2eRun(rin)
			emit(Case{Coq: e2eCoq(rin, o), Input: rin, Impl: o, Key: "replay", Nontriv: true})
			return
		}
		type res struct {
			in e2eInput
			o  e2eObs
		}
		ins := make([]e2eInput, n)
		for i := range ins {
			ins[i] = e2eGen(rng, i)
			ins[i].fixDisk()
		}
		out := make([]res, n)
		sem := make(chan struct{}, 6)
		done := make(chan int, n)
		for i := range ins {
			go func(i int) {
				sem <- struct{}{}
				out[i] = res{ins[i], e2eRun(ins[i])}
				<-sem
				done <- i
			}(i)
		}
		for range ins {
			<-done
		}
		for _, r := range out {
			in, o := r.in, r.o
			tags := []string{"format=" + in.Format, "model=" + in.Model, "throttle=" + in.Throttle}
			add := func(c bool, t string) {
				if c {
					tags = append(tags, t)
				}
			}
			add(len(o.Motion) > 0, "motion-files")
			add(len(o.Const) > 0, "const-files")
			add(in.WindowClosed, "window-closed")
			add(in.DiskFull, "disk-full")
			add(in.Const, "constant-recorder")
			add(in.SetRecorderDefaults, "recorder-defaults")
			add(in.effMotion().DynamicThreshold, "dynamic-threshold")
			add(len(o.Leftover) > 0, "temporaries-left")
			emit(Case{Coq: e2eCoq(in, o), Input: in, Impl: o, Tags: tags, Nontriv: len(o.Motion)+len(o.Const) > 0, Key: fmt.Sprint(in.Serial, len(in.Items))})
		}
	}
}
