package main

// RECHDR (C11): the real CPTVFileRecorder (driver mode filerec) through sequences of recordings in
// which some StartRecording calls fail at file creation (the output directory is moved away for the
// duration of the call, as when the storage is briefly unavailable). Every file that is finished
// must decode to exactly what was handed over between its own start and stop: background frame
// first, the frames written, and a motion-configuration text that is the configured motion section
// followed by ONE line "triggeredthresh: <threshold of that start>".

import (
	"encoding/json"
	"fmt"
	"io"
	"math/rand"
	"os"
	"path/filepath"
	"sort"
	"strings"
	"time"

	goconfig "github.com/TheCacophonyProject/go-config"
	cptv "github.com/TheCacophonyProject/go-cptv"
	yaml2 "gopkg.in/yaml.v2"
)

type rhRec struct {
	Thresh    int   `json:"thresh"`
	Frames    []int `json:"frames"`
	FailStart bool  `json:"start_fails,omitempty"` // the directory is away during StartRecording
}
type rhInput struct {
	Const bool `json:"constant_recorder"`
	// device name of this many bytes is configured (0: the short default); above 255 the CPTV header
	// cannot be written, so every StartRecording fails AFTER the temporary file has been created
	NameLen int `json:"device_name_length,omitempty"`
	// one recording of 65600 frames (values j%60000+1), the next ([7 8 9]) started straight after it was stopped, then [11]
	Long bool    `json:"long_recording_then_next,omitempty"`
	Recs []rhRec `json:"recordings"`
}

func rhRun(in rhInput) (ok bool, why string, files int) {
	if in.Long {
		long := rhRec{Thresh: 2900}
		for j := 0; j < 65600; j++ {
			long.Frames = append(long.Frames, j%60000+1)
		}
		in.Recs = []rhRec{long, {Thresh: 3012, Frames: []int{7, 8, 9}}, {Thresh: 0, Frames: []int{11}}}
	}
	dir, _ := os.MkdirTemp(runDir(), "rechdr")
	defer os.RemoveAll(dir)
	out := filepath.Join(dir, "out")
	os.Mkdir(out, 0755)
	d := startDriver(buildDir()+"/tr-driver", "filerec", "", "TZ=UTC")
	defer func() { d.in.Close(); d.cmd.Wait() }()
	// the driver acknowledges every command with {"ack": ..., "err": "<nil>" | message}
	send := func(s string) string {
		io.WriteString(d.in, s+"\n")
		line, _ := d.out.ReadString('\n')
		var ack struct {
			Err string `json:"err"`
		}
		if json.Unmarshal([]byte(line), &ack) != nil {
			return "no acknowledgement: " + line
		}
		return ack.Err
	}
	cst := "0"
	recDir := out
	if in.Const {
		cst = "1"
		recDir = filepath.Join(out, "constant-recordings")
	}
	if in.NameLen > 0 {
		send(fmt.Sprintf("new %s %s 8 6 %d", out, cst, in.NameLen))
	} else {
		send(fmt.Sprintf("new %s %s 8 6", out, cst))
	}
	var want []rhRec
	for _, r := range in.Recs {
		time.Sleep(2 * time.Millisecond) // distinct millisecond time stamps
		if in.NameLen > 255 {
			// the header is refused: the start must fail, and the stop that the caller may still issue
			// (the throttle layer and handleConn's shutdown path do) must not give the header-less file a final name
			if resp := send(fmt.Sprintf("start %d", r.Thresh)); resp == "<nil>" {
				return false, "StartRecording succeeded although the header cannot be written", 0
			}
			if len(r.Frames)%2 == 1 {
				send("stop")
			}
			continue
		}
		if r.FailStart {
			os.Rename(recDir, recDir+".away")
			resp := send(fmt.Sprintf("start %d", r.Thresh))
			os.Rename(recDir+".away", recDir)
			if resp == "<nil>" {
				return false, "StartRecording succeeded although the directory was away", 0
			}
			continue
		}
		if resp := send(fmt.Sprintf("start %d", r.Thresh)); resp != "<nil>" {
			return false, "StartRecording failed: " + strings.TrimSpace(resp), 0
		}
		if len(r.Frames) > 1000 {
			// (a long recording holds the values j%60000+1: written by the driver in one go)
			send(fmt.Sprintf("writen %d %d", len(r.Frames), r.Frames[0]-1))
		} else {
			for _, v := range r.Frames {
				send(fmt.Sprintf("write %d", v))
			}
		}
		if resp := send("stop"); resp != "<nil>" {
			return false, "StopRecording failed: " + strings.TrimSpace(resp), 0
		}
		want = append(want, r)
	}
	var before []string
	if in.NameLen > 255 {
		// what a failed start leaves behind has a temporary name and is removed by the start-up clean-up
		before, _ = filepath.Glob(filepath.Join(recDir, "*.cptv"))
		send("deltemp " + out)
	}
	send("exit")
	if len(before) > 0 {
		return false, fmt.Sprintf("no recording was started, but %d file(s) bear a final name: %v", len(before), before), len(before)
	}
	names, _ := filepath.Glob(filepath.Join(recDir, "*.cptv"))
	sort.Strings(names)
	if len(names) != len(want) {
		return false, fmt.Sprintf("%d recordings finished, %d files", len(want), len(names)), len(names)
	}
	my, _ := yaml2.Marshal(goconfig.ThermalMotion{})
	ok = true
	for i, n := range names {
		r, err := cptv.NewFileReader(n)
		if err != nil {
			return false, "file does not open: " + err.Error(), len(names)
		}
		wantMC := fmt.Sprintf("%striggeredthresh: %d\n", string(my), want[i].Thresh)
		if r.MotionConfig() != wantMC {
			ok, why = false, why+fmt.Sprintf(" [file %d: motion configuration %q, expected %q]", i, r.MotionConfig(), wantMC)
		}
		if !r.HasBackgroundFrame() {
			ok, why = false, why+fmt.Sprintf(" [file %d: no background frame]", i)
		}
		fr := r.EmptyFrame()
		var got []int
		for {
			err := r.ReadFrame(fr)
			if err == io.EOF {
				break
			}
			if err != nil {
				ok, why = false, why+fmt.Sprintf(" [file %d: %v]", i, err)
				break
			}
			if fr.Status.BackgroundFrame {
				continue
			}
			got = append(got, int(fr.Pix[2][3]))
		}
		r.Close()
		if fmt.Sprint(got) != fmt.Sprint(want[i].Frames) {
			ok, why = false, why+fmt.Sprintf(" [file %d holds %d frames %s, written %d frames %s]", i, len(got), headTail(got), len(want[i].Frames), headTail(want[i].Frames))
		}
	}
	left, _ := filepath.Glob(filepath.Join(recDir, "*.temp*"))
	if len(left) > 0 {
		ok, why = false, why+fmt.Sprintf(" [temporaries left: %d]", len(left))
	}
	return ok, why, len(names)
}

func headTail(v []int) string {
	if len(v) <= 12 {
		return fmt.Sprint(v)
	}
	return fmt.Sprint(v[:6]) + ".." + fmt.Sprint(v[len(v)-6:])
}

func init() {
	runners["RECHDR"] = func(rng *rand.Rand, n int, tier string, emit func(Case)) {
		var rin rhInput
		if loadReplay(&rin) && (len(rin.Recs) > 0 || rin.Long) {
			ok, why, files := rhRun(rin)
			emit(Case{Coq: fmt.Sprintf("mkLag %s %d %d", coqBool(ok), 0, files), Input: rin,
				Impl: map[string]interface{}{"ok": ok, "why": why, "files": files}, Nontriv: true, Key: "replay"})
			return
		}
		for i := 0; i < n; i++ {
			in := rhInput{Const: rng.Intn(3) == 0 && constOK}
			if i == 1 {
				// one very long recording (more frames than a 16-bit counter holds, far more than a minute of them),
				// the next one started straight after it was stopped: both must decode to exactly their frames
				in.Long = true
				ok, why, files := rhRun(in)
				emit(Case{Coq: fmt.Sprintf("mkLag %s %d %d", coqBool(ok), 0, files), Input: in,
					Impl: map[string]interface{}{"ok": ok, "why": why, "files": files},
					Tags: []string{"long-recording-then-next", fmt.Sprintf("const=%v", in.Const)}, Nontriv: true, Key: fmt.Sprint("rechdr-long", in.Const)})
				continue
			}
			if i%4 == 3 {
				in.NameLen = []int{255, 256, 300}[(i/4)%3]
			}
			v := 100
			fails := 0
			for k := 0; k < 3+rng.Intn(4); k++ {
				r := rhRec{Thresh: []int{0, 2900, 3012, 65535, 30000}[rng.Intn(5)]}
				if in.NameLen > 255 {
					fails++
				}
				if in.NameLen <= 255 && k > 0 && rng.Intn(3) == 0 {
					r.FailStart = true
					fails++
				} else {
					for j := 0; j < 1+rng.Intn(5); j++ {
						v++
						r.Frames = append(r.Frames, v)
					}
				}
				in.Recs = append(in.Recs, r)
			}
			ok, why, files := rhRun(in)
			emit(Case{Coq: fmt.Sprintf("mkLag %s %d %d", coqBool(ok), fails, files), Input: in,
				Impl: map[string]interface{}{"ok": ok, "why": why, "files": files},
				Tags: []string{fmt.Sprintf("failed-starts=%d", fails), fmt.Sprintf("const=%v", in.Const)}, Nontriv: files >= 2 || in.NameLen > 255, Key: fmt.Sprint("rechdr", i, fails, files)})
		}
	}
}
