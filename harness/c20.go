package main

import (
	"bytes"
	"fmt"
	"log"
	"math/big"
	"math/rand"
	"strings"
	"time"

	"github.com/TheCacophonyProject/thermal-recorder/loglimiter"
)

type c20Ev struct {
	Msg  int   `json:"msg"`  // index into c20Msgs
	Sec  int64 `json:"sec"`  // unix seconds
	Nsec int64 `json:"nsec"` // nanoseconds
	Fmt  bool  `json:"fmt"`  // go through Printf
}
type c20Input struct {
	Interval int64   `json:"interval_ns"`
	Hist     []c20Ev `json:"hist"`
}

var c20Msgs = []string{"", "Recording not started: motion detected but outside of recording window",
	"Failed to write to CPTV file disk full", "making a snapshot", "100% of %d frames\\n weird %s",
	// two different messages of the same length (file names that differ in one digit)
	"Can't start recording file: open /var/spool/cptv/20260929.101501.000.cptv.temp: no space left on device",
	"Can't start recording file: open /var/spool/cptv/20260929.101502.000.cptv.temp: no space left on device"}

const zeroUnix = -62135596800 // unix seconds of Go's zero time

// nanoseconds since Go's zero time as a decimal string
func sinceZero(sec, nsec int64) string {
	b := big.NewInt(sec - zeroUnix)
	b.Mul(b, big.NewInt(1000000000))
	b.Add(b, big.NewInt(nsec))
	return b.String()
}

func c20Run(in c20Input) []int {
	var now time.Time
	l := loglimiter.NewWithClock(time.Duration(in.Interval), func() time.Time { return now })
	var buf bytes.Buffer
	oldW, oldF := log.Writer(), log.Flags()
	log.SetOutput(&buf)
	log.SetFlags(0)
	defer func() { log.SetOutput(oldW); log.SetFlags(oldF) }()
	var obs []int
	for _, e := range in.Hist {
		now = time.Unix(e.Sec, e.Nsec)
		buf.Reset()
		msg := c20Msgs[e.Msg]
		if e.Fmt {
			l.Printf("%s", msg)
		} else {
			l.Print(msg)
		}
		out := buf.String()
		switch {
		case out == "":
			obs = append(obs, 0)
		case out == msg+"\n" || (strings.HasSuffix(msg, "\n") && out == msg):
			obs = append(obs, 1)
		default:
			obs = append(obs, 2)
		}
	}
	return obs
}

func c20Gen(rng *rand.Rand, i int) c20Input {
	ivs := []int64{int64(time.Minute), int64(time.Minute), int64(time.Minute), int64(time.Second), 1, 0, int64(90 * time.Minute)}
	in := c20Input{Interval: ivs[rng.Intn(len(ivs))]}
	sec := int64(1577836800) + rng.Int63n(1000000) // 2020
	nsec := rng.Int63n(1000000000)
	if i%11 == 0 { // start at/near Go's zero time: the limiter's initial ("" , zero time) entry is live
		sec, nsec = zeroUnix, rng.Int63n(3)*in.Interval/2
		for nsec >= 1000000000 {
			sec++
			nsec -= 1000000000
		}
	}
	n := 3 + rng.Intn(40)
	nm := 1 + rng.Intn(len(c20Msgs))
	lastMsg := rng.Intn(nm)
	for j := 0; j < n; j++ {
		// message: mostly repeat the previous one
		if rng.Intn(4) == 0 {
			lastMsg = rng.Intn(nm)
		}
		// gap: around the interval boundary, tiny, zero, negative, or huge
		var gap int64
		switch rng.Intn(12) {
		case 0:
			gap = in.Interval - 1
		case 1:
			gap = in.Interval
		case 2:
			gap = in.Interval + 1
		case 3:
			gap = 0
		case 4:
			gap = -rng.Int63n(in.Interval + 2)
		case 5:
			gap = in.Interval/2 + 1
		case 6:
			gap = in.Interval / 2
		case 7:
			gap = int64(2 * time.Hour) // candidate for the 300-year jump below
		default:
			gap = rng.Int63n(in.Interval/3 + 2)
		}
		if j > 0 {
			if rng.Intn(12) == 7 && gap > int64(time.Hour) {
				sec += 300 * 365 * 24 * 3600 // 300 years: Sub saturates
			} else {
				nsec += gap
				for nsec >= 1000000000 {
					sec++
					nsec -= 1000000000
				}
				for nsec < 0 {
					sec--
					nsec += 1000000000
				}
			}
		}
		in.Hist = append(in.Hist, c20Ev{Msg: lastMsg, Sec: sec, Nsec: nsec, Fmt: rng.Intn(3) == 0})
	}
	return in
}

func c20Coq(in c20Input, obs []int) string {
	var hs []string
	for _, e := range in.Hist {
		hs = append(hs, fmt.Sprintf("(%d,%s)", e.Msg, sinceZero(e.Sec, e.Nsec)))
	}
	return fmt.Sprintf("mkCase %d %s %s", in.Interval, coqList(hs), zlist(obs))
}

func init() {
	runners["C20"] = func(rng *rand.Rand, n int, tier string, emit func(Case)) {
		var rin c20Input
		if loadReplay(&rin) {
			obs := c20Run(rin)
			emit(Case{Coq: c20Coq(rin, obs), Input: rin, Impl: obs, Key: "replay", Nontriv: true})
			return
		}
		for i := 0; i < n; i++ {
			in := c20Gen(rng, i)
			obs := c20Run(in)
			sup, pr := 0, 0
			for _, o := range obs {
				if o == 0 {
					sup++
				} else {
					pr++
				}
			}
			tags := []string{fmt.Sprintf("interval=%d", in.Interval)}
			if sup > 0 {
				tags = append(tags, "has-suppressed")
			}
			if pr > 1 {
				tags = append(tags, "multi-print")
			}
			emit(Case{Coq: c20Coq(in, obs), Input: in, Impl: obs, Tags: tags, Nontriv: sup > 0 && pr > 1,
				Key: c20Coq(in, nil)})
		}
	}
}
