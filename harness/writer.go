package main

import (
	"bufio"
	"bytes"
	"encoding/binary"
	"fmt"
	"io/ioutil"
	"math/rand"
	"net"
	"os"
	"os/exec"
	"path/filepath"
	"sort"
	"strings"
	"time"
)

type wrInput struct {
	Model      string `json:"model"`
	Brand      string `json:"brand"`
	FPS        int    `json:"fps"`
	ResX       int    `json:"resx"`
	ResY       int    `json:"resy"`
	FrameSize  int    `json:"frame_size"`
	Frames     int    `json:"frames"`
	Seed       int64  `json:"content_seed"`
	Chunks     []int  `json:"chunk_sizes"` // cycled
	GoMaxProcs int    `json:"gomaxprocs"`
	Tail       int    `json:"partial_tail_bytes"` // a truncated last frame
	PauseEvery int    `json:"pause_every_chunks"`
	SpreadMs   int    `json:"spread_ms,omitempty"`            // > 0: frames are sent one by one, evenly over this many milliseconds
	ClearAt    int    `json:"clear_prefixed_frame,omitempty"` // > 0: this frame begins with the bytes "clear" (the recorder's in-band marker means nothing to the writer)
}

func wrFrames(in wrInput) [][]byte {
	r := rand.New(rand.NewSource(in.Seed))
	fs := make([][]byte, in.Frames)
	for i := range fs {
		b := make([]byte, in.FrameSize)
		r.Read(b)
		// sequence number in the first 4 bytes makes duplicates / reordering visible
		if in.FrameSize >= 4 {
			binary.LittleEndian.PutUint32(b, uint32(i))
		}
		if in.ClearAt > 0 && i == in.ClearAt && in.FrameSize >= 5 {
			copy(b, "clear")
		}
		fs[i] = b
	}
	return fs
}

func runDir() string {
	if d := os.Getenv("VERIF_RUNDIR"); d != "" {
		return d
	}
	return os.TempDir()
}

// wrRun: one connection through the real thermal-writer handleConn/writer; returns file contents in name order
func wrRun(in wrInput, extraWrap []string) (files [][]byte, log string, ok bool) {
	fs, log, ok := wrRunConns([]wrInput{in}, extraWrap, false)
	if len(fs) > 0 {
		files = fs[0]
	}
	return files, log, ok
}

// wrRunConns: one thermal-writer process serving the given connections one after the other (as the
// daemon does when the camera reconnects, possibly as a different camera); returns, per connection, the
// contents of the files that appeared while it was served, in name order
// nowait: the driver accepts the next connection as soon as handleConn returns (as runMain does), while the
// previous connection's writer goroutine may still be draining; files are then attributed to connections by
// the length of their frames (the caller gives every connection its own frame size), after all writers ended
func wrRunConns(ins []wrInput, extraWrap []string, nowait bool) (files [][][]byte, log string, ok bool) {
	dir, _ := ioutil.TempDir(runDir(), "tw")
	defer os.RemoveAll(dir)
	out := filepath.Join(dir, "out")
	os.Mkdir(out, 0755)
	sock := filepath.Join(dir, "s")
	d := startDriverWrapped(extraWrap, buildDir()+"/tw-driver", "serve", fmt.Sprintf("%s %s %d%s", out, sock, len(ins), map[bool]string{true: " nowait", false: ""}[nowait]), fmt.Sprintf("GOMAXPROCS=%d", ins[0].GoMaxProcs))
	defer func() { d.in.Close(); d.cmd.Wait() }()
	seen := map[string]bool{}
	ok = true
	for _, in := range ins {
		line, err := d.out.ReadString('\n')
		if err != nil || !strings.Contains(line, "listening") {
			return files, "driver did not listen: " + line, false
		}
		conn, err := net.Dial("unix", sock)
		if err != nil {
			return files, err.Error(), false
		}
		wrFeed(conn, in)
		conn.Close()
		// the connection must end (handleConn returns when the stream ends); a daemon that hangs is a failure, not a wait
		type rl struct {
			s   string
			err error
		}
		ch := make(chan rl, 1)
		go func() { s, err := d.out.ReadString('\n'); ch <- rl{s, err} }()
		select {
		case r := <-ch:
			line, err = r.s, r.err
		case <-time.After(30 * time.Second):
			d.cmd.Process.Kill()
			return files, fmt.Sprintf("connection %d: handleConn has not returned 30 s after the camera disconnected", len(files)+1), false
		}
		if err != nil {
			return files, "driver died", false
		}
		log = line
		if nowait {
			continue
		}
		ok = ok && strings.Contains(line, `"writer_done":true`)
		names, _ := filepath.Glob(filepath.Join(out, "*"))
		sort.Strings(names)
		var mine [][]byte
		for _, n := range names {
			if seen[n] {
				continue
			}
			seen[n] = true
			b, _ := ioutil.ReadFile(n)
			mine = append(mine, b)
		}
		files = append(files, mine)
	}
	if nowait {
		ok = strings.Contains(log, `"writer_done":true`)
		files = make([][][]byte, len(ins))
		names, _ := filepath.Glob(filepath.Join(out, "*"))
		sort.Strings(names)
		for _, n := range names {
			b, _ := ioutil.ReadFile(n)
			k := 0 // a file that cannot be attributed is judged with the first connection (and fails there)
			if _, fr, err := cptrParse(b); err == nil && len(fr) > 0 {
				for j, in := range ins {
					if len(fr[0]) == in.FrameSize {
						k = j
					}
				}
			} else if err == nil {
				// header only: belongs to a connection without frames, if any
				for j, in := range ins {
					if in.Frames == 0 {
						k = j
					}
				}
			}
			files[k] = append(files[k], b)
		}
	}
	return files, log, ok
}

func wrFeed(conn net.Conn, in wrInput) {
	hdr := fmt.Sprintf("ResX: %d\nResY: %d\nFrameSize: %d\nModel: %s\nBrand: %s\nFPS: %d\nCameraSerial: 5\nFirmware: 1.0.0\n\n", in.ResX, in.ResY, in.FrameSize, in.Model, in.Brand, in.FPS)
	var stream bytes.Buffer
	stream.WriteString(hdr)
	frames := wrFrames(in)
	for _, f := range frames {
		stream.Write(f)
	}
	if in.Tail > 0 && in.Tail < in.FrameSize {
		stream.Write(make([]byte, in.Tail))
	}
	data := stream.Bytes()
	ci := 0
	nch := 0
	if in.SpreadMs > 0 {
		// a long-lived connection (the writer starts a new file every newFileInterval)
		conn.Write([]byte(hdr))
		gap := time.Duration(in.SpreadMs) * time.Millisecond / time.Duration(len(frames)+1)
		for _, f := range frames {
			if _, err := conn.Write(f); err != nil {
				break
			}
			time.Sleep(gap)
		}
		data = nil
	}
	for len(data) > 0 {
		n := in.Chunks[ci%len(in.Chunks)]
		ci++
		if n > len(data) {
			n = len(data)
		}
		if _, err := conn.Write(data[:n]); err != nil {
			break
		}
		data = data[n:]
		nch++
		if in.PauseEvery > 0 && nch%in.PauseEvery == 0 {
			time.Sleep(200 * time.Microsecond)
		}
	}
}

// Go-side parser of the CPTR format (used for the large runs that are not passed to Coq)
func cptrParse(b []byte) (fields map[byte][]byte, frames [][]byte, err error) {
	if len(b) < 7 || string(b[:4]) != "CPTR" || b[4] != 2 || b[5] != 'H' {
		return nil, nil, fmt.Errorf("bad preamble")
	}
	p := 7
	readFields := func(n int) (map[byte][]byte, error) {
		m := map[byte][]byte{}
		for i := 0; i < n; i++ {
			if p+2 > len(b) {
				return nil, fmt.Errorf("truncated field")
			}
			l, c := int(b[p]), b[p+1]
			p += 2
			if p+l > len(b) {
				return nil, fmt.Errorf("truncated field data")
			}
			m[c] = b[p : p+l]
			p += l
		}
		return m, nil
	}
	fields, err = readFields(int(b[6]))
	if err != nil {
		return
	}
	for p < len(b) {
		if p+2 > len(b) || b[p] != 'F' {
			return fields, frames, fmt.Errorf("bad frame section at %d", p)
		}
		n := int(b[p+1])
		p += 2
		ff, e := readFields(n)
		if e != nil {
			return fields, frames, e
		}
		sz, ok := ff['f']
		if !ok || len(sz) != 4 {
			return fields, frames, fmt.Errorf("no frame size")
		}
		l := int(binary.LittleEndian.Uint32(sz))
		if p+l > len(b) {
			return fields, frames, fmt.Errorf("truncated frame")
		}
		frames = append(frames, b[p:p+l])
		p += l
	}
	return fields, frames, nil
}

func bytesCoq(b []byte) string {
	var sb strings.Builder
	sb.WriteByte('[')
	for i, x := range b {
		if i > 0 {
			sb.WriteByte(';')
		}
		fmt.Fprintf(&sb, "%d", x)
	}
	sb.WriteByte(']')
	return sb.String()
}

func wrCoq(in wrInput, files [][]byte) string {
	var fr, fl []string
	for _, f := range wrFrames(in) {
		fr = append(fr, bytesCoq(f))
	}
	for _, f := range files {
		fl = append(fl, bytesCoq(f))
	}
	return fmt.Sprintf("mkCase %s %s %d %d %d %s 42 %s %s", bytesCoq([]byte(in.Model)), bytesCoq([]byte(in.Brand)), in.FPS, in.ResX, in.ResY,
		bytesCoq([]byte("verif-device")), coqList(fr), coqList(fl))
}

func wrGen(rng *rand.Rand, i int, small bool) wrInput {
	in := wrInput{Model: []string{"lepton3", "lepton3.5", "boson"}[rng.Intn(3)], Brand: "flir", FPS: 1 + rng.Intn(60), ResX: 1 + rng.Intn(640), ResY: 1 + rng.Intn(512)}
	in.Seed = rng.Int63()
	in.GoMaxProcs = []int{1, 2, 4, 16}[rng.Intn(4)]
	if small {
		in.FrameSize = []int{1, 5, 6, 8, 13, 32}[rng.Intn(6)]
		in.Frames = []int{0, 1, 2, 7, 60, 255, 256, 257, 300, 520}[rng.Intn(10)]
		if in.FrameSize*in.Frames > 9000 {
			in.Frames = 9000 / in.FrameSize
		}
	} else {
		in.FrameSize = []int{39040, 131072, 655360}[rng.Intn(3)]
		in.Frames = 300 + rng.Intn(500)
	}
	nch := 1 + rng.Intn(6)
	for k := 0; k < nch; k++ {
		switch rng.Intn(5) {
		case 0:
			in.Chunks = append(in.Chunks, 1)
		case 1:
			in.Chunks = append(in.Chunks, in.FrameSize)
		case 2:
			in.Chunks = append(in.Chunks, in.FrameSize*(2+rng.Intn(5))+rng.Intn(3))
		case 3:
			in.Chunks = append(in.Chunks, 1+rng.Intn(in.FrameSize+3))
		default:
			in.Chunks = append(in.Chunks, 1+rng.Intn(4096))
		}
	}
	if small && len(in.Chunks) == 1 && in.Chunks[0] == 1 && in.Frames*in.FrameSize > 3000 {
		in.Chunks = append(in.Chunks, 97)
	}
	if rng.Intn(3) == 0 && in.FrameSize > 1 {
		in.Tail = 1 + rng.Intn(in.FrameSize-1)
	}
	if rng.Intn(2) == 0 {
		in.PauseEvery = 1 + rng.Intn(50)
	}
	return in
}

func init() {
	runners["WRITER"] = func(rng *rand.Rand, n int, tier string, emit func(Case)) {
		var rin wrInput
		var rmulti struct {
			Connections []wrInput `json:"connections"`
			K           int       `json:"this_case_is_connection"`
			NoWait      bool      `json:"nowait"`
		}
		if loadReplay(&rmulti) && len(rmulti.Connections) > 0 {
			fs, _, _ := wrRunConns(rmulti.Connections, nil, rmulti.NoWait)
			var files [][]byte
			if rmulti.K < len(fs) {
				files = fs[rmulti.K]
			}
			emit(Case{Coq: wrCoq(rmulti.Connections[rmulti.K], files), Input: rmulti, Impl: map[string]interface{}{"files": len(files)}, Key: "replay", Nontriv: true})
			return
		}
		if loadReplay(&rin) {
			files, _, _ := wrRun(rin, nil)
			emit(Case{Coq: wrCoq(rin, files), Input: rin, Impl: map[string]interface{}{"files": len(files)}, Key: "replay", Nontriv: true})
			return
		}
		for i := 0; i < n; i++ {
			in := wrGen(rng, i, true)
			if i%3 == 2 {
				// the camera reconnects to the SAME writer process, once as a camera with another frame
				// size: each connection is one case, judged like a single one
				ins := []wrInput{in, wrGen(rng, i, true), wrGen(rng, i, true)}
				for k := range ins {
					ins[k].GoMaxProcs = in.GoMaxProcs
					if ins[k].Frames == 0 {
						ins[k].Frames = 3
					}
				}
				if ins[1].FrameSize == ins[0].FrameSize {
					ins[1].FrameSize = ins[0].FrameSize + 3
				}
				ins[2].FrameSize = ins[0].FrameSize
				nowait := i%6 == 5
				if nowait {
					// all three frame sizes distinct, enough frames for the previous writer to be busy still
					ins[2].FrameSize = ins[0].FrameSize + 7
					if ins[2].FrameSize == ins[1].FrameSize {
						ins[2].FrameSize += 2
					}
					for k := range ins {
						if ins[k].Frames < 200 {
							ins[k].Frames = 200 + 40*k
						}
						if ins[k].FrameSize*ins[k].Frames > 9000 {
							ins[k].Frames = 9000 / ins[k].FrameSize
						}
						ins[k].Tail, ins[k].PauseEvery = 0, 0
						ins[k].Chunks = []int{4096}
					}
				}
				fs, line, _ := wrRunConns(ins, nil, nowait)
				for k := range ins {
					var files [][]byte
					if k < len(fs) {
						files = fs[k]
					}
					emit(Case{Coq: wrCoq(ins[k], files), Input: map[string]interface{}{"connections": ins, "this_case_is_connection": k, "nowait": nowait},
						Impl: map[string]interface{}{"files": len(files), "driver": strings.TrimSpace(line)},
						Tags: []string{fmt.Sprintf("connection-%d-of-process", k+1), fmt.Sprintf("framesize=%d", ins[k].FrameSize), fmt.Sprintf("reconnect-without-waiting=%v", nowait)}, Nontriv: true, Key: fmt.Sprint("reconn", k, ins[k].FrameSize, ins[k].Frames, ins[k].Seed)})
				}
				continue
			}
			if i%5 == 3 && in.FrameSize >= 5 && in.Frames >= 4 {
				in.ClearAt = 1 + in.Frames/3
			}
			files, line, done := wrRun(in, nil)
			tags := []string{fmt.Sprintf("gomaxprocs=%d", in.GoMaxProcs), fmt.Sprintf("framesize=%d", in.FrameSize)}
			if in.ClearAt > 0 {
				tags = append(tags, "frame-beginning-with-clear")
			}
			if in.Frames > 256 {
				tags = append(tags, "frames>256")
			}
			if in.Tail > 0 {
				tags = append(tags, "partial-tail")
			}
			if !done {
				tags = append(tags, "WRITER-NOT-DONE")
			}
			total := 0
			for _, f := range files {
				total += len(f)
			}
			emit(Case{Coq: wrCoq(in, files), Input: in, Impl: map[string]interface{}{"files": len(files), "bytes": total, "driver": strings.TrimSpace(line)},
				Tags: tags, Nontriv: in.Frames >= 2, Key: fmt.Sprint(in.FrameSize, in.Frames, in.Seed)})
		}
	}
}

// WRITERROT: one connection kept open across the writer's file rotation (newFileInterval, one
// minute): frames trickle in for 63 s, then the camera disconnects.  Judged here: at least two
// files, every file parses, all frames exactly once, in order, byte for byte - in particular
// the frames written after the rotation are flushed when the connection ends.
func init() {
	runners["WRITERROT"] = func(rng *rand.Rand, n int, tier string, emit func(Case)) {
		for i := 0; i < n; i++ {
			in := wrGen(rng, i, false)
			in.FrameSize = 64 + rng.Intn(64)
			in.Frames = 240 + rng.Intn(40)
			in.Tail, in.PauseEvery = 0, 0
			in.GoMaxProcs = []int{2, 1, 4, 16}[i%4]
			in.SpreadMs = 63000
			files, line, done := wrRun(in, nil)
			sent := wrFrames(in)
			ok := done
			why := ""
			if !done {
				why = "writer goroutine did not finish"
			}
			var got [][]byte
			for _, f := range files {
				_, fr, err := cptrParse(f)
				if err != nil {
					ok, why = false, "file does not parse: "+err.Error()
				}
				got = append(got, fr...)
			}
			if len(files) < 2 {
				ok, why = false, fmt.Sprintf("%d file(s): no rotation observed in 63 s", len(files))
			}
			if len(got) != len(sent) {
				ok, why = false, fmt.Sprintf("%d frames stored, %d sent (%d files)", len(got), len(sent), len(files))
			} else {
				for k := range got {
					if !bytes.Equal(got[k], sent[k]) {
						ok, why = false, fmt.Sprintf("frame %d differs", k)
						break
					}
				}
			}
			emit(Case{Coq: fmt.Sprintf("mkLag %s %d %d", coqBool(ok), 0, len(sent)), Input: in,
				Impl: map[string]interface{}{"ok": ok, "why": why, "files": len(files), "driver": strings.TrimSpace(line)},
				Tags: []string{fmt.Sprintf("files=%d", len(files)), "rotation"}, Nontriv: len(files) >= 2, Key: fmt.Sprint("rot", in.Seed)})
		}
	}
}

// WRITERRACE: the writer built with the Go race detector; one connection with a burst of frames, more than five
// seconds of silence (timers and background work of the daemon fire while nothing arrives), then the camera
// disconnects.  No data race may be reported, and the frames must be stored as always.
func init() {
	runners["WRITERRACE"] = func(rng *rand.Rand, n int, tier string, emit func(Case)) {
		for i := 0; i < n; i++ {
			in := wrGen(rng, i, true)
			in.FrameSize, in.Frames, in.Tail, in.PauseEvery, in.Chunks, in.GoMaxProcs = 16+rng.Intn(16), 60, 0, 0, []int{4096}, 4
			dir, _ := ioutil.TempDir(runDir(), "twrace")
			out := filepath.Join(dir, "out")
			os.Mkdir(out, 0755)
			sock := filepath.Join(dir, "s")
			cmd := exec.Command(buildDir() + "/tw-driver-race")
			cmd.Env = append(os.Environ(), "VERIF_DRIVER=serve", "VERIF_ARGS="+out+" "+sock+" 1", "GOMAXPROCS=4", "GORACE=halt_on_error=0")
			var stderr bytes.Buffer
			cmd.Stderr = &stderr
			so, _ := cmd.StdoutPipe()
			ok, why := true, ""
			if err := cmd.Start(); err != nil {
				ok, why = false, "race build of the writer did not start: "+err.Error()
			} else {
				rd := bufio.NewReader(so)
				rd.ReadString('\n') // listening
				conn, err := net.Dial("unix", sock)
				if err != nil {
					ok, why = false, err.Error()
				} else {
					frames := wrFrames(in)
					hdr := fmt.Sprintf("ResX: %d\nResY: %d\nFrameSize: %d\nModel: %s\nBrand: %s\nFPS: %d\nCameraSerial: 5\nFirmware: 1.0.0\n\n", in.ResX, in.ResY, in.FrameSize, in.Model, in.Brand, in.FPS)
					conn.Write([]byte(hdr))
					for _, f := range frames {
						conn.Write(f)
					}
					time.Sleep(5600 * time.Millisecond)
					conn.Close()
					rd.ReadString('\n') // conn-end
				}
				cmd.Process.Kill()
				cmd.Wait()
				if n := strings.Count(stderr.String(), "WARNING: DATA RACE"); n > 0 {
					ok = false
					rep := stderr.String()
					if k := strings.Index(rep, "WARNING: DATA RACE"); k >= 0 {
						rep = rep[k:]
					}
					if len(rep) > 1500 {
						rep = rep[:1500]
					}
					why = fmt.Sprintf("%d data race report(s) from the writer; first: %s", n, rep)
				}
				var got [][]byte
				names, _ := filepath.Glob(filepath.Join(out, "*"))
				sort.Strings(names)
				for _, nm := range names {
					b, _ := ioutil.ReadFile(nm)
					_, fr, err := cptrParse(b)
					if err != nil {
						ok, why = false, why+" [file does not parse: "+err.Error()+"]"
					}
					got = append(got, fr...)
				}
				sent := wrFrames(in)
				if len(got) != len(sent) {
					ok, why = false, why+fmt.Sprintf(" [%d frames stored, %d sent]", len(got), len(sent))
				}
			}
			os.RemoveAll(dir)
			emit(Case{Coq: fmt.Sprintf("mkLag %s %d %d", coqBool(ok), 0, in.Frames), Input: in,
				Impl: map[string]interface{}{"ok": ok, "why": why},
				Tags: []string{"race-detector-run", "silence>5s"}, Nontriv: true, Key: fmt.Sprint("wrace", in.Seed)})
		}
	}
}

// WRITERLAG: large frames with the writer stalled by strace-injected delays on write
// syscalls, so that the 256-deep queue fills and drains; judged here (too large for Coq):
// files parse, frames exactly once in order byte for byte.
func init() {
	runners["WRITERLAG"] = func(rng *rand.Rand, n int, tier string, emit func(Case)) {
		for i := 0; i < n; i++ {
			in := wrGen(rng, i, false)
			in.FrameSize = 131072
			in.Frames = 600 + rng.Intn(200)
			in.Chunks = []int{65536, 131072 * 3, 4096 + rng.Intn(100000)}
			in.PauseEvery = 0
			in.GoMaxProcs = []int{1, 2, 4, 16}[i%4]
			logf := filepath.Join(runDir(), fmt.Sprintf("twlag%d.log", i))
			wrap := []string{"strace", "-f", "-o", "/dev/null", "-e", "trace=write", "-e", "inject=write:delay_enter=700000"}
			os.Setenv("VERIF_LOG", "1")
			old := os.Stderr
			lf, _ := os.Create(logf)
			os.Stderr = lf
			files, line, done := wrRun(in, wrap)
			os.Stderr = old
			lf.Close()
			os.Unsetenv("VERIF_LOG")
			logb, _ := ioutil.ReadFile(logf)
			maxBacklog := 0
			for _, l := range strings.Split(string(logb), "\n") {
				var b int
				if k := strings.Index(l, "high write backlog ("); k >= 0 {
					fmt.Sscanf(l[k:], "high write backlog (%d)", &b)
					if b > maxBacklog {
						maxBacklog = b
					}
				}
			}
			sent := wrFrames(in)
			ok := done
			why := ""
			var got [][]byte
			for _, f := range files {
				_, fr, err := cptrParse(f)
				if err != nil {
					ok, why = false, "file does not parse: "+err.Error()
				}
				got = append(got, fr...)
			}
			if len(got) != len(sent) {
				ok, why = false, fmt.Sprintf("%d frames stored, %d sent", len(got), len(sent))
			} else {
				for k := range got {
					if !bytes.Equal(got[k], sent[k]) {
						ok, why = false, fmt.Sprintf("frame %d differs", k)
						break
					}
				}
			}
			tags := []string{fmt.Sprintf("max-backlog>=%d", maxBacklog/64*64), fmt.Sprintf("gomaxprocs=%d", in.GoMaxProcs)}
			emit(Case{Coq: fmt.Sprintf("mkLag %s %d %d", coqBool(ok), maxBacklog, len(sent)), Input: in,
				Impl: map[string]interface{}{"ok": ok, "why": why, "max_backlog_logged": maxBacklog, "files": len(files), "driver": strings.TrimSpace(line)},
				Tags: tags, Nontriv: maxBacklog > 10, Key: fmt.Sprint(in.Seed)})
		}
	}
}
