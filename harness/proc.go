package main

import (
	"errors"
	"fmt"
	"io/ioutil"
	"log"
	"math/rand"
	"strings"
	"time"

	config "github.com/TheCacophonyProject/go-config"
	"github.com/TheCacophonyProject/go-cptv/cptvframe"
	"github.com/TheCacophonyProject/lepton3"
	"github.com/TheCacophonyProject/thermal-recorder/motion"
	"github.com/TheCacophonyProject/thermal-recorder/recorder"
	"github.com/TheCacophonyProject/window"
)

// ---- input ----

type procEv struct {
	K   string `json:"k"`             // "f" frame, "b" bad frame, "r" reset, "s" test-recording request
	M   bool   `json:"m,omitempty"`   // intended motion (frames)
	Tod int64  `json:"tod,omitempty"` // wall clock of this frame: ns since midnight UTC
}

type procInput struct {
	FPS      int      `json:"fps"`
	Preview  int      `json:"preview_secs"`
	Trigger  int      `json:"trigger_frames"`
	MinSecs  int      `json:"min_secs"`
	MaxSecs  int      `json:"max_secs"`
	Const    bool     `json:"constant_recorder"`
	WinStart int      `json:"win_start_min"` // minutes since midnight; == WinEnd: no window
	WinEnd   int      `json:"win_end_min"`
	FM       []bool   `json:"faults_motion"`
	FC       []bool   `json:"faults_const"`
	FT       []bool   `json:"faults_test"`
	Evs      []procEv `json:"events"`
	Tail     int      `json:"tail_from"` // index of the first event of the fault-free recovery tail, -1 = none
	FFCEvery int      `json:"ffc_every,omitempty"` // > 0: frames whose id is 0 or 1 modulo this carry a fresh flat-field correction
}

// ---- observed trace ----

type procOut struct {
	T    string `json:"t"`            // call | lmotion | lstarted | lended | winq | panic
	Sink string `json:"sink,omitempty"`
	Call string `json:"call,omitempty"`
	ID   int    `json:"id,omitempty"`
	Fail bool   `json:"fail,omitempty"`
	Open bool   `json:"open,omitempty"`
	Msg  string `json:"msg,omitempty"`
	// StartRecording arguments (motion sink), for C15
	Thresh int `json:"thresh,omitempty"`
}

type procStep struct {
	Ev     procEv    `json:"ev"`
	ID     int       `json:"id"`
	Motion bool      `json:"motion"` // observed via MotionDetected
	Outs   []procOut `json:"outs"`
}

type scriptSink struct {
	name   string
	faults []bool
	pos    int
	outs   *[]procOut
}

func (s *scriptSink) next() bool {
	if s.pos < len(s.faults) {
		b := s.faults[s.pos]
		s.pos++
		return b
	}
	s.pos++
	return false
}
func (s *scriptSink) res(call string, id int, thresh int) error {
	f := s.next()
	*s.outs = append(*s.outs, procOut{T: "call", Sink: s.name, Call: call, ID: id, Fail: f, Thresh: thresh})
	if f {
		return errors.New("scripted failure")
	}
	return nil
}
func (s *scriptSink) StopRecording() error { return s.res("stop", 0, 0) }
func (s *scriptSink) StartRecording(bg *cptvframe.Frame, th uint16) error {
	return s.res("start", 0, int(th))
}
func (s *scriptSink) WriteFrame(f *cptvframe.Frame) error { return s.res("write", getID(f), 0) }
func (s *scriptSink) CheckCanRecord() error               { return s.res("check", 0, 0) }

type procListener struct{ outs *[]procOut }

func (l *procListener) MotionDetected()   { *l.outs = append(*l.outs, procOut{T: "lmotion"}) }
func (l *procListener) RecordingStarted() { *l.outs = append(*l.outs, procOut{T: "lstarted"}) }
func (l *procListener) RecordingEnded()   { *l.outs = append(*l.outs, procOut{T: "lended"}) }

// harness frame format: [kind, id0..id3, levelLo, levelHi]
func harnessParser(raw []byte, out *cptvframe.Frame, edge int) error {
	id := int(raw[1]) | int(raw[2])<<8 | int(raw[3])<<16 | int(raw[4])<<24
	level := uint16(raw[5]) | uint16(raw[6])<<8
	if raw[0] == 1 {
		// like the real parsers: the slot is already partly overwritten when the error is returned
		out.Pix[0][0] = 0xffff
		out.Pix[0][1] = 0xffff
		return &lepton3.BadFrameErr{Cause: errors.New("scripted bad frame")}
	}
	for y := range out.Pix {
		for x := range out.Pix[y] {
			out.Pix[y][x] = level
		}
	}
	setID(out, id)
	out.Status = cptvframe.Telemetry{TimeOn: time.Minute + time.Duration(id)*time.Millisecond, LastFFCTime: time.Second}
	if len(raw) > 7 && raw[7] == 1 {
		// the camera ran a flat-field correction just before this frame (the detector then reports no
		// motion; nothing else in the processor may depend on it)
		out.Status.LastFFCTime = out.Status.TimeOn
	}
	return nil
}

func hhmm(m int) string { return fmt.Sprintf("%02d:%02d", m/60, m%60) }

var tailFM, tailFC, tailFT []bool
var tailReached bool // the last procRun got as far as the recovery tail (it stops at a panic)

// PROCSNAP: after every accepted frame GetRecentFrame() (what a snapshot request is served from) must hand back
// that frame - also when a sink failed while it was processed.  procRun counts the frames for which it did not.
var procSnapCheck bool
var procSnapStale, procSnapChecked int
var procSnapFirst string

func procRun(in procInput) (steps []procStep) {
	log.SetOutput(ioutil.Discard)
	tailFM, tailFC, tailFT = nil, nil, nil
	tailReached = false
	cam := testCam{4, 4, in.FPS}
	var outs []procOut
	var now time.Time
	winAsked := false
	w, err := window.New(hhmm(in.WinStart), hhmm(in.WinEnd), 0, 0)
	if err != nil {
		panic(err)
	}
	var wprobe window.Window = *w // same configuration, used to read the library's answer
	wprobe.Now = func() time.Time { return now }
	w.Now = func() time.Time {
		if !winAsked {
			winAsked = true
			outs = append(outs, procOut{T: "winq", Open: wprobe.Active()})
		}
		return now
	}
	rconf := &recorder.RecorderConfig{MinSecs: in.MinSecs, MaxSecs: in.MaxSecs, PreviewSecs: in.Preview, Window: *w}
	mconf := &config.ThermalMotion{UseOneDiffOnly: true, FrameCompareGap: 1, DeltaThresh: 50, CountThresh: 1,
		TempThresh: 0, EdgePixels: 1, TriggerFrames: in.Trigger}
	sm := &scriptSink{name: "motion", faults: in.FM, outs: &outs}
	sc := &scriptSink{name: "const", faults: in.FC, outs: &outs}
	st := &scriptSink{name: "test", faults: in.FT, outs: &outs}
	var constRec recorder.Recorder
	if in.Const {
		constRec = sc
	} else {
		var nilSink *scriptSink
		constRec = nilSink // what main.go passes: a typed nil pointer
	}
	mp := motion.NewMotionProcessor(harnessParser, mconf, rconf, &config.Location{}, &procListener{&outs}, sm, cam, constRec, st)
	if w.NoWindow {
		// NoWindow windows never consult the clock; report the consultation the model expects
		// by asking Active() through a probe is impossible - handled in the model (no WinQ emitted)
	}
	nextID := 0
	level := 1000
	up := true
	base := time.Date(2021, 3, 10, 0, 0, 0, 0, time.UTC)
	for ei, e := range in.Evs {
		if in.Tail >= 0 && ei == in.Tail {
			// recovery tail: no faults from here on (scripts are cut at what was consumed)
			for _, sk := range []*scriptSink{sm, sc, st} {
				if sk.pos < len(sk.faults) {
					sk.faults = sk.faults[:sk.pos]
				}
			}
			tailFM, tailFC, tailFT = sm.faults, sc.faults, st.faults
			tailReached = true
		}
		outs = nil
		winAsked = false
		step := procStep{Ev: e, ID: -1}
		func() {
			defer func() {
				if r := recover(); r != nil {
					outs = append(outs, procOut{T: "panic", Msg: fmt.Sprint(r)})
				}
			}()
			switch e.K {
			case "f":
				if e.M {
					if up {
						level += 100
					} else {
						level -= 100
					}
					if level > 60000 {
						up = false
					}
					if level < 2000 {
						up = true
					}
				}
				now = base.Add(time.Duration(e.Tod))
				raw := []byte{0, byte(nextID), byte(nextID >> 8), byte(nextID >> 16), byte(nextID >> 24), byte(level), byte(level >> 8), 0}
				// (not in the fault-free recovery tail: the detector reports nothing for the two frames after a
				// flat-field correction, and the tail's motion run must be seen)
				if in.FFCEvery > 0 && nextID%in.FFCEvery < 2 && (in.Tail < 0 || ei < in.Tail) {
					raw[7] = 1
				}
				step.ID = nextID
				nextID++
				if err := mp.Process(raw); err != nil {
					outs = append(outs, procOut{T: "panic", Msg: "unexpected error " + err.Error()})
				} else if procSnapCheck && in.Preview*in.FPS+in.Trigger >= 2 {
					procSnapChecked++
					if _, f := mp.GetRecentFrame(); f == nil || getID(f) != step.ID {
						procSnapStale++
						if procSnapFirst == "" {
							got := -1
							if f != nil {
								got = getID(f)
							}
							procSnapFirst = fmt.Sprintf("event %d: frame %d has been processed, the most recent completed frame handed out is %d", ei, step.ID, got)
						}
					}
				}
			case "b":
				raw := []byte{1, 0xff, 0xff, 0xff, 0x7f, 0, 0}
				err := mp.Process(raw)
				if _, ok := err.(*lepton3.BadFrameErr); !ok {
					outs = append(outs, procOut{T: "panic", Msg: "bad frame not reported"})
				}
			case "r":
				mp.Reset(cam)
			case "s":
				mp.StartSnapshot = true
			}
		}()
		for _, o := range outs {
			if o.T == "lmotion" {
				step.Motion = true
			}
		}
		step.Outs = outs
		steps = append(steps, step)
		if len(outs) > 0 && outs[len(outs)-1].T == "panic" {
			break
		}
	}
	return steps
}

// ---- Coq printing ----

func coqBools(bs []bool) string {
	var s []string
	for _, b := range bs {
		s = append(s, coqBool(b))
	}
	return coqList(s)
}

func procOutCoq(o procOut) string {
	switch o.T {
	case "call":
		sink := map[string]string{"motion": "SMotion", "const": "SConst", "test": "STest"}[o.Sink]
		var c string
		switch o.Call {
		case "check":
			c = "Check"
		case "start":
			c = "Start"
		case "stop":
			c = "Stop"
		case "write":
			c = fmt.Sprintf("(Write %s)", zs(o.ID))
		}
		return fmt.Sprintf("Call %s %s %s", sink, c, coqBool(o.Fail))
	case "lmotion":
		return "LMotion"
	case "lstarted":
		return "LStarted"
	case "lended":
		return "LEnded"
	case "winq":
		return "WinQ " + coqBool(o.Open)
	}
	return "Panic"
}

func procCoq(in procInput, steps []procStep) string {
	var ss []string
	for _, s := range steps {
		var ev string
		switch s.Ev.K {
		case "f":
			ev = fmt.Sprintf("HFrame %d %s %d", s.ID, coqBool(s.Motion), s.Ev.Tod)
		case "b":
			ev = "HBad"
		case "r":
			ev = "HReset"
		case "s":
			ev = "HSnap"
		}
		var os []string
		for _, o := range s.Outs {
			os = append(os, procOutCoq(o))
		}
		ss = append(ss, fmt.Sprintf("(%s,%s)", ev, coqList(os)))
	}
	return fmt.Sprintf("mkCase (mkCfg %d %d %d %d %s) (mkW %d %d) %s %s %s %s %s",
		in.Preview*in.FPS+in.Trigger, in.MinSecs*in.FPS, in.MaxSecs*in.FPS, in.Trigger, coqBool(in.Const),
		in.WinStart, in.WinEnd, coqBools(in.FM), coqBools(in.FC), coqBools(in.FT), zs(in.Tail), coqList(ss))
}

// ---- generator ----

const dayNs = int64(24 * time.Hour)

func genFaults(rng *rand.Rand, n int, p float64, allowWrite bool) []bool {
	// scripts are positional (one entry per call on the sink); to avoid write faults the
	// C01 stage uses scripts in which only a few positions fail and the harness cannot know
	// which call will land there - so write-fault-free runs use p = 0 for writes by
	// regenerating (see procGen).
	fs := make([]bool, n)
	for i := range fs {
		fs[i] = rng.Float64() < p
	}
	return fs
}

func procGen(rng *rand.Rand, i int, mode string) procInput {
	var in procInput
	in.Tail = -1
	in.FPS = []int{1, 1, 2, 3, 9}[rng.Intn(5)]
	in.Preview = rng.Intn(4)
	in.Trigger = rng.Intn(5)
	if in.Preview*in.FPS+in.Trigger < 1 {
		in.Trigger = 1
	}
	in.FFCEvery = []int{0, 0, 7, 13, 29}[rng.Intn(5)]
	in.MinSecs = rng.Intn(4)
	in.MaxSecs = in.MinSecs + rng.Intn(5-in.MinSecs+1)
	if in.FPS == 9 && rng.Intn(2) == 0 {
		in.MaxSecs = in.MinSecs + rng.Intn(2)
	}
	in.Const = rng.Intn(2) == 0
	// window
	switch rng.Intn(4) {
	case 0:
		in.WinStart, in.WinEnd = 0, 0 // no window
	case 1:
		in.WinStart = rng.Intn(1440)
		in.WinEnd = rng.Intn(1440)
	case 2: // spans midnight
		in.WinStart = 1200 + rng.Intn(240)
		in.WinEnd = rng.Intn(600)
	case 3:
		in.WinStart = rng.Intn(700)
		in.WinEnd = in.WinStart + 1 + rng.Intn(700)
	}
	size := in.Preview*in.FPS + in.Trigger
	minF, maxF := in.MinSecs*in.FPS, in.MaxSecs*in.FPS
	n := 20 + rng.Intn(180)
	if i%5 == 0 {
		n = 20 + rng.Intn(60)
	}
	pBad := []float64{0, 0, 0.01, 0.05, 0.2}[rng.Intn(5)]
	pReset := []float64{0, 0, 0.01, 0.05}[rng.Intn(4)]
	pSnap := []float64{0, 0.01, 0.05}[rng.Intn(3)]
	// clock: start near a window boundary, advance 1/fps s per frame (sometimes jumps)
	frameNs := int64(time.Second) / int64(in.FPS)
	bounds := []int64{int64(in.WinStart) * 60e9, int64(in.WinEnd) * 60e9, 0}
	tod := bounds[rng.Intn(3)] - int64(rng.Intn(40))*frameNs - int64(rng.Intn(3))
	tod = ((tod % dayNs) + dayNs) % dayNs
	inWindowBias := rng.Intn(3) // 0: start near boundary; 1,2: jump inside window first
	if inWindowBias > 0 && in.WinStart != in.WinEnd {
		tod = (int64(in.WinStart)*60e9 + int64(rng.Intn(30))*frameNs) % dayNs
	}
	// motion pattern: run-length grammar
	var bits []bool
	for len(bits) < n {
		var run, gap int
		switch rng.Intn(8) {
		case 0:
			run = in.Trigger - 1
		case 1:
			run = in.Trigger
		case 2:
			run = in.Trigger + 1
		case 3:
			run = maxF + in.Trigger + rng.Intn(2*maxF+3) // sustained motion past max
		case 4:
			run = 1
		default:
			run = rng.Intn(size + minF + 3)
		}
		switch rng.Intn(8) {
		case 0:
			gap = minF - 1
		case 1:
			gap = minF
		case 2:
			gap = minF + 1
		case 3:
			gap = rng.Intn(size + 3) // re-trigger within pre-trigger reach
		case 4:
			gap = 1
		case 5:
			gap = maxF - rng.Intn(3)
		default:
			gap = rng.Intn(size + minF + maxF + 3)
		}
		if run < 0 {
			run = 0
		}
		if gap < 0 {
			gap = 0
		}
		for j := 0; j < run; j++ {
			bits = append(bits, true)
		}
		for j := 0; j < gap; j++ {
			bits = append(bits, false)
		}
	}
	for _, b := range bits[:n] {
		switch {
		case rng.Float64() < pBad:
			in.Evs = append(in.Evs, procEv{K: "b"})
			if rng.Intn(3) == 0 {
				in.Evs = append(in.Evs, procEv{K: "b"})
			}
		case rng.Float64() < pReset:
			in.Evs = append(in.Evs, procEv{K: "r"})
		case rng.Float64() < pSnap:
			in.Evs = append(in.Evs, procEv{K: "s"})
		}
		in.Evs = append(in.Evs, procEv{K: "f", M: b, Tod: tod})
		if rng.Intn(200) == 0 {
			tod += int64(rng.Intn(1440)) * 60e9 // clock jump
		} else {
			tod += frameNs
		}
		tod %= dayNs
	}
	// fault scripts
	switch mode {
	case "C01": // refused starts only: a script position fails only if the call there is check/start;
		// done by running once fault-free to learn the call kinds, then failing a subset of check/start positions
		steps := procRun(in)
		var kinds []string
		for _, s := range steps {
			for _, o := range s.Outs {
				if o.T == "call" && o.Sink == "motion" {
					kinds = append(kinds, o.Call)
				}
			}
		}
		p := []float64{0, 0.1, 0.3, 0.6}[rng.Intn(4)]
		// failing a check/start changes later calls; iterate to a fixpoint script
		for iter := 0; iter < 50; iter++ {
			changed := false
			fm := make([]bool, len(kinds))
			copy(fm, in.FM)
			for k := len(in.FM); k < len(kinds); k++ {
				if kinds[k] == "check" || kinds[k] == "start" || kinds[k] == "stop" {
					fm[k] = rng.Float64() < p
					if fm[k] {
						changed = true
					}
				}
				if changed {
					fm = fm[:k+1]
					break
				}
			}
			in.FM = fm
			if !changed {
				break
			}
			steps = procRun(in)
			kinds = kinds[:0]
			for _, s := range steps {
				for _, o := range s.Outs {
					if o.T == "call" && o.Sink == "motion" {
						kinds = append(kinds, o.Call)
					}
				}
			}
		}
	case "C12":
		p := []float64{0.01, 0.05, 0.2}[rng.Intn(3)]
		in.FM = genFaults(rng, 600, p, true)
		in.FC = genFaults(rng, 600, p, true)
		in.FT = genFaults(rng, 200, p, true)
		// recovery tail: fault-free, reset-free, window open: max+1 motionless frames, then a
		// motion run of max(1, trigger) frames
		in.Tail = len(in.Evs)
		ttod := int64(in.WinStart) * 60e9 % dayNs
		// (+2: a correction on the last frames before the tail silences the detector for two more frames)
		for j := 0; j < maxF+1+2; j++ {
			in.Evs = append(in.Evs, procEv{K: "f", M: false, Tod: ttod})
		}
		run := in.Trigger
		if run < 1 {
			run = 1
		}
		// the detector needs a changed frame for each motion verdict; the first frame after a
		// motionless stretch with a level change is reported as motion
		for j := 0; j < run; j++ {
			in.Evs = append(in.Evs, procEv{K: "f", M: true, Tod: ttod})
		}
		steps := procRun(in)
		_ = steps
		// (a run that panicked before the tail keeps its whole scripts: the case must reproduce the panic)
		if tailReached {
			in.FM, in.FC, in.FT = tailFM, tailFC, tailFT
		}
	}
	return in
}

func procTags(in procInput, steps []procStep) (tags []string, nontriv bool, key string) {
	starts, stops, bads, resets, snaps, refused, faults, panics := 0, 0, 0, 0, 0, 0, 0, 0
	var kb strings.Builder
	fmt.Fprintf(&kb, "%d/%d/%d/%d/%d/%v/%d-%d:", in.FPS, in.Preview, in.Trigger, in.MinSecs, in.MaxSecs, in.Const, in.WinStart, in.WinEnd)
	for _, s := range steps {
		switch s.Ev.K {
		case "b":
			bads++
			kb.WriteByte('b')
		case "r":
			resets++
			kb.WriteByte('r')
		case "s":
			snaps++
			kb.WriteByte('s')
		default:
			if s.Motion {
				kb.WriteByte('1')
			} else {
				kb.WriteByte('0')
			}
		}
		for _, o := range s.Outs {
			if o.T == "call" && o.Sink == "motion" {
				if o.Call == "start" && !o.Fail {
					starts++
				}
				if o.Call == "stop" {
					stops++
				}
				if (o.Call == "start" || o.Call == "check") && o.Fail {
					refused++
				}
			}
			if o.T == "call" && o.Fail {
				faults++
			}
			if o.T == "winq" && !o.Open {
				refused++
			}
			if o.T == "panic" {
				panics++
			}
		}
	}
	tags = append(tags, fmt.Sprintf("fps=%d", in.FPS), fmt.Sprintf("size=%d", in.Preview*in.FPS+in.Trigger))
	add := func(c bool, t string) {
		if c {
			tags = append(tags, t)
		}
	}
	add(starts >= 2, "recordings>=2")
	add(starts == 1, "recordings=1")
	add(starts == 0, "recordings=0")
	add(bads > 0, "bad-frames")
	add(resets > 0, "resets")
	add(snaps > 0, "test-requests")
	add(refused > 0, "refused-starts")
	add(faults > 0, "sink-faults")
	add(in.Const, "continuous-on")
	add(in.WinStart != in.WinEnd, "window-set")
	add(panics > 0, "PANIC")
	return tags, starts >= 2, kb.String()
}

func procRunner(mode string) propRunner {
	return func(rng *rand.Rand, n int, tier string, emit func(Case)) {
		var rin procInput
		rin.Tail = -1
		if loadReplay(&rin) {
			steps := procRun(rin)
			emit(Case{Coq: procCoq(rin, steps), Input: rin, Impl: steps, Key: "replay", Nontriv: true})
			return
		}
		for i := 0; i < n; i++ {
			in := procGen(rng, i, mode)
			steps := procRun(in)
			tags, nt, key := procTags(in, steps)
			emit(Case{Coq: procCoq(in, steps), Input: in, Impl: steps, Tags: tags, Nontriv: nt, Key: key})
		}
	}
}

func init() {
	runners["PROC"] = procRunner("C01")     // refused starts, bad frames, resets; no write faults
	runners["PROCFAULT"] = procRunner("C12") // faults on every kind of call
	// PROCSNAP (C16): the same fault histories; judged here: after every accepted frame the frame a snapshot
	// request would be served from is that frame (ring capacity >= 2), whatever the sinks did meanwhile
	runners["PROCSNAP"] = func(rng *rand.Rand, n int, tier string, emit func(Case)) {
		var rin procInput
		rin.Tail = -1
		replay := loadReplay(&rin)
		for i := 0; i < n; i++ {
			in := rin
			if !replay {
				in = procGen(rng, i, "C12")
			}
			procSnapCheck, procSnapStale, procSnapChecked, procSnapFirst = true, 0, 0, ""
			steps := procRun(in)
			procSnapCheck = false
			faults := 0
			for _, st := range steps {
				for _, o := range st.Outs {
					if o.Fail {
						faults++
					}
				}
			}
			ok := procSnapStale == 0
			emit(Case{Coq: fmt.Sprintf("mkLag %s %d %d", coqBool(ok), procSnapStale, procSnapChecked), Input: in,
				Impl: map[string]interface{}{"ok": ok, "frames_checked": procSnapChecked, "stale": procSnapStale, "first": procSnapFirst, "sink_faults": faults},
				Tags: []string{"snapshot-source-after-every-frame", fmt.Sprintf("sink-faults>0=%v", faults > 0)}, Nontriv: procSnapChecked >= 5 && faults > 0,
				Key: fmt.Sprint("procsnap", i, procSnapChecked, faults)})
			if replay {
				return
			}
		}
	}
}
