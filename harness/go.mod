module verifharness

go 1.15

require (
	github.com/TheCacophonyProject/go-cptv v0.0.0-20211109233846-8c32a5d161f7
	github.com/TheCacophonyProject/thermal-recorder v0.0.0
)

replace github.com/TheCacophonyProject/thermal-recorder => /repo

replace periph.io/x/periph => github.com/TheCacophonyProject/periph v2.1.1-0.20200615222341-6834cd5be8c1+incompatible
