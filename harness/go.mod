module verifharness

go 1.15

require (
	github.com/TheCacophonyProject/go-config v1.6.4
	github.com/TheCacophonyProject/go-cptv v0.0.0-20211109233846-8c32a5d161f7
	github.com/TheCacophonyProject/lepton3 v0.0.0-20210324024142-003e5546e30f
	github.com/TheCacophonyProject/thermal-recorder v0.0.0
	github.com/TheCacophonyProject/window v0.0.0-20200312071457-7fc8799fdce7
	gopkg.in/yaml.v1 v1.0.0-20140924161607-9f9df34309c0
	gopkg.in/yaml.v2 v2.2.8
)

replace github.com/TheCacophonyProject/thermal-recorder => /repo

replace periph.io/x/periph => github.com/TheCacophonyProject/periph v2.1.1-0.20200615222341-6834cd5be8c1+incompatible
