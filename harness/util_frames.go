package main

import (
	"github.com/TheCacophonyProject/go-cptv/cptvframe"
)

// testCam is a tiny CameraSpec for harness runs.
type testCam struct{ x, y, fps int }

func (c testCam) ResX() int { return c.x }
func (c testCam) ResY() int { return c.y }
func (c testCam) FPS() int  { return c.fps }

// frame ids live in two border pixels of row 0
func setID(f *cptvframe.Frame, id int) {
	f.Pix[0][0] = uint16(id & 0xffff)
	f.Pix[0][1] = uint16((id >> 16) & 0xffff)
}

func getID(f *cptvframe.Frame) int {
	return int(f.Pix[0][0]) | int(f.Pix[0][1])<<16
}
