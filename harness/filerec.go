package main

import (
	"bufio"
	"fmt"
	"io"
	"io/ioutil"
	"math/rand"
	"os"
	"os/exec"
	"path/filepath"
	"regexp"
	"sort"
	"strings"
	"time"

	cptv "github.com/TheCacophonyProject/go-cptv"
)

// a scenario: recorder calls on the real CPTVFileRecorder (driver mode filerec)
type frScenario struct {
	Const bool       `json:"constant_recorder"`
	Calls []frCall   `json:"calls"`
	// start2 / write2 / stop2 calls go to a second recorder on the same directory (the test-recording
	// recorder next to the motion recorder); such a scenario has no single-recorder namespace trace
	Two bool `json:"two_recorders,omitempty"`
	// the configured output directory is a symbolic link to the real one (e.g. /var/spool/cptv -> a mounted card)
	Symlink bool `json:"output_dir_is_symlink,omitempty"`
}

// creates the scenario's output directory at path p (directly, or as a link to p-real)
func frMkOut(sc frScenario, p string) {
	if sc.Symlink {
		os.MkdirAll(p+"-real", 0755)
		os.Symlink(p+"-real", p)
		return
	}
	os.MkdirAll(p, 0755)
}
type frCall struct {
	K string `json:"k"` // start | write | stop | abort | start2 | write2 | stop2
	V int    `json:"v,omitempty"`
}

type frEntry struct {
	Dir    string `json:"dir"`  // "out" | "const"
	Name   string `json:"name"`
	Ext    string `json:"ext"`  // cptv | temp | tmp | other
	Decode bool   `json:"decodes"`
	Frames []int  `json:"frames,omitempty"` // uniform pixel value of each decoded frame (background excluded)
}

func classify(name string) string {
	switch {
	case strings.HasSuffix(name, ".cptv"):
		return "cptv"
	case strings.HasSuffix(name, ".cptv.temp"):
		return "temp"
	case strings.HasSuffix(name, ".cptv.temp.tmp"):
		return "tmp"
	}
	return "other"
}

func decodeCPTV(path string) (ok bool, vals []int) {
	r, err := cptv.NewFileReader(path)
	if err != nil {
		return false, nil
	}
	defer r.Close()
	fr := r.EmptyFrame()
	n := 0
	for {
		err := r.ReadFrame(fr)
		if err == io.EOF {
			break
		}
		if err != nil {
			return false, vals
		}
		n++
		if fr.Status.BackgroundFrame {
			continue
		}
		vals = append(vals, int(fr.Pix[0][0]))
	}
	if int(r.NumFrames()) != n {
		return false, vals
	}
	return true, vals
}

func listTree(out string) []frEntry {
	var es []frEntry
	for _, d := range [][2]string{{"out", out}, {"const", filepath.Join(out, "constant-recordings")}} {
		fis, _ := ioutil.ReadDir(d[1])
		for _, fi := range fis {
			if fi.IsDir() {
				continue
			}
			e := frEntry{Dir: d[0], Name: fi.Name(), Ext: classify(fi.Name())}
			if e.Ext == "cptv" {
				e.Decode, e.Frames = decodeCPTV(filepath.Join(d[1], fi.Name()))
			}
			es = append(es, e)
		}
	}
	sort.Slice(es, func(i, j int) bool { return es[i].Dir+es[i].Name < es[j].Dir+es[j].Name })
	return es
}

const frSyscalls = "openat,write,pwrite64,close,rename,renameat,renameat2,unlink,unlinkat,lseek,read,fsync,ftruncate"

// run the scenario; kill = 0: uninterrupted (with an strace log of namespace calls), else the
// process receives SIGKILL on entering the kill-th traced system call
func frRunScenario(sc frScenario, out string, killName string, kill int, straceLog string, observe func()) (completed bool) {
	args := []string{"-f", "-qq"}
	if kill > 0 {
		// strace counts invocations per system call number: (name, k) enumerates every call
		args = append(args, "-o", "/dev/null", "-e", "trace="+killName, "-e", fmt.Sprintf("inject=%s:signal=KILL:when=%d", killName, kill))
	} else if kill < 0 {
		// counting run: every traced system call of the scenario
		args = append(args, "-o", straceLog, "-e", "trace="+frSyscalls)
	} else {
		args = append(args, "-o", straceLog, "-e", "trace=openat,rename,renameat,renameat2,unlink,unlinkat")
	}
	args = append(args, buildDir()+"/tr-driver")
	cmd := exec.Command("strace", args...)
	cmd.Env = append(os.Environ(), "VERIF_DRIVER=filerec", "TZ=UTC", "GOMAXPROCS=1")
	stdin, _ := cmd.StdinPipe()
	stdout, _ := cmd.StdoutPipe()
	if err := cmd.Start(); err != nil {
		panic(err)
	}
	rd := bufio.NewReader(stdout)
	send := func(s string) bool {
		if _, err := io.WriteString(stdin, s+"\n"); err != nil {
			return false
		}
		_, err := rd.ReadString('\n')
		return err == nil
	}
	cst := "0"
	if sc.Const {
		cst = "1"
	}
	alive := send(fmt.Sprintf("new %s %s 8 6", out, cst))
	for _, c := range sc.Calls {
		if !alive {
			break
		}
		switch c.K {
		case "start":
			time.Sleep(2 * time.Millisecond) // distinct millisecond time stamps
			alive = send("start 3000")
		case "write":
			alive = send(fmt.Sprintf("write %d", c.V))
		case "stop":
			alive = send("stop")
		case "abort":
			alive = send("Stop")
		case "start2":
			time.Sleep(2 * time.Millisecond)
			alive = send("start2 3000")
		case "write2":
			alive = send(fmt.Sprintf("write2 %d", c.V))
		case "stop2":
			alive = send("stop2")
		}
		if observe != nil {
			observe()
		}
	}
	if alive {
		alive = send("exit")
	}
	stdin.Close()
	cmd.Wait()
	return alive
}

func frRecover(out string) {
	cmd := exec.Command(buildDir() + "/tr-driver")
	cmd.Env = append(os.Environ(), "VERIF_DRIVER=filerec")
	cmd.Stdin = strings.NewReader("deltemp " + out + "\nexit\n")
	cmd.Run()
}

func frEntriesCoq(es []frEntry) string {
	var s []string
	for _, e := range es {
		d := "DOut"
		if e.Dir == "const" {
			d = "DConst"
		}
		ext := map[string]string{"cptv": "XCptv", "temp": "XTemp", "tmp": "XTempTmp", "other": "XOther"}[e.Ext]
		s = append(s, fmt.Sprintf("mkEnt %s %s %s %s", d, ext, coqBool(e.Decode), zlist(e.Frames)))
	}
	for i := range s {
		s[i] = "(" + s[i] + ")"
	}
	return coqList(s)
}

func frCallsCoq(sc frScenario) string {
	// as model calls: recordings numbered 1,2,... in start order
	var s []string
	dir := "DOut"
	if sc.Const {
		dir = "DConst"
	}
	next, ts, ts2 := 0, 0, 0
	var cur, cur2 []int
	for _, c := range sc.Calls {
		switch c.K {
		case "start":
			next++
			ts = next
			cur = nil
			s = append(s, fmt.Sprintf("RStart %s %d", dir, ts))
		case "write":
			cur = append(cur, c.V)
		case "stop":
			s = append(s, fmt.Sprintf("RStop %s %d %s", dir, ts, zlist(cur)))
		case "abort":
			s = append(s, fmt.Sprintf("RAbort %s %d %s", dir, ts, zlist(cur)))
		case "start2":
			next++
			ts2 = next
			cur2 = nil
			s = append(s, fmt.Sprintf("RStart %s %d", dir, ts2))
		case "write2":
			cur2 = append(cur2, c.V)
		case "stop2":
			s = append(s, fmt.Sprintf("RStop %s %d %s", dir, ts2, zlist(cur2)))
		}
	}
	return coqList(s)
}

var reStrace = regexp.MustCompile(`(openat|rename|renameat|renameat2|unlink|unlinkat)\((.*)\)\s+=\s+(-?\d+)`)

// namespace operations on the output tree from an strace log, canonicalised:
// names are replaced by (recording number in order of first appearance, extension)
func frNamespaceOps(log, out string) []string {
	b, _ := ioutil.ReadFile(log)
	ids := map[string]int{}
	canon := func(p string) (string, bool) {
		if !strings.HasPrefix(p, out) {
			return "", false
		}
		base := filepath.Base(p)
		ext := classify(base)
		if ext == "other" {
			return "", false
		}
		stem := strings.SplitN(base, ".cptv", 2)[0]
		if _, ok := ids[stem]; !ok {
			ids[stem] = len(ids) + 1
		}
		dir := "DOut"
		if strings.Contains(p, "constant-recordings") {
			dir = "DConst"
		}
		e := map[string]string{"cptv": "Cptv", "temp": "Temp", "tmp": "TempTmp"}[ext]
		return fmt.Sprintf("(mkName %s %d %s)", dir, ids[stem], e), true
	}
	var ops []string
	rePath := regexp.MustCompile(`"([^"]*)"`)
	for _, line := range strings.Split(string(b), "\n") {
		m := reStrace.FindStringSubmatch(line)
		if m == nil || strings.HasPrefix(m[3], "-") {
			continue
		}
		paths := rePath.FindAllStringSubmatch(m[2], -1)
		switch m[1] {
		case "openat":
			if len(paths) >= 1 && strings.Contains(m[2], "O_CREAT") {
				if n, ok := canon(paths[0][1]); ok {
					ops = append(ops, "FCreate "+n)
				}
			}
		case "rename", "renameat", "renameat2":
			if len(paths) >= 2 {
				a, ok1 := canon(paths[0][1])
				c, ok2 := canon(paths[1][1])
				if ok1 && ok2 {
					ops = append(ops, "FRename "+a+" "+c)
				}
			}
		case "unlink", "unlinkat":
			if len(paths) >= 1 {
				if n, ok := canon(paths[0][1]); ok {
					ops = append(ops, "FUnlink "+n)
				}
			}
		}
	}
	return ops
}

func frScenarios(rng *rand.Rand, tier string) []frScenario {
	w := func(vs ...int) []frCall {
		var c []frCall
		for _, v := range vs {
			c = append(c, frCall{"write", v})
		}
		return c
	}
	join := func(parts ...[]frCall) []frCall {
		var c []frCall
		for _, p := range parts {
			c = append(c, p...)
		}
		return c
	}
	st, sp, ab := []frCall{{K: "start"}}, []frCall{{K: "stop"}}, []frCall{{K: "abort"}}
	scs := []frScenario{
		{false, join(st, w(11, 12, 13), sp, st, w(21, 22), sp, st, w(31)), false, false},
		{true, join(st, w(11, 12), sp, st, w(21), sp, st, w(31, 32)), false, false},
		{false, join(st, w(11, 12), ab, st, w(21), sp), false, false},
		// a test recording made while a motion recording is open: at any later kill an unfinished file is OLDER than a finished one
		{false, join(st, w(11), []frCall{{K: "start2"}, {K: "write2", V: 51}, {K: "write2", V: 52}, {K: "stop2"}}, w(12, 13)), true, false},
		// the output directory is a symbolic link; constant recorder, one finished and one open recording
		{true, join(st, w(11), sp, st, w(21, 22)), false, true},
	}
	if !constOK {
		var keep []frScenario
		for _, sc := range scs {
			if !sc.Const {
				keep = append(keep, sc)
			}
		}
		scs = keep
	}
	if tier == "thorough" {
		var many []int
		for i := 0; i < 400; i++ { // enough frames for bufio flushes of the scratch file
			many = append(many, 100+i)
		}
		scs = append(scs, frScenario{false, join(st, w(many...), sp, st, w(5), ab, st, w(6, 7), sp), false, false},
			frScenario{true, join(st, w(many...), sp, st, w(8)), false, false})
		if !constOK {
			scs = scs[:len(scs)-1]
		}
	}
	return scs
}

func init() {
	runners["FILEREC"] = func(rng *rand.Rand, n int, tier string, emit func(Case)) {
		base, _ := ioutil.TempDir(runDir(), "fr")
		defer os.RemoveAll(base)
		scs := frScenarios(rng, tier)
		var rin struct {
			Scenario frScenario `json:"scenario"`
			Kill     int        `json:"kill"`
			KillName string     `json:"kill_syscall"`
		}
		replay := loadReplay(&rin)
		if replay {
			scs = []frScenario{rin.Scenario}
		}
		for si, sc := range scs {
			// 1. uninterrupted run: namespace trace + concurrent observer
			out := filepath.Join(base, fmt.Sprintf("s%d-full", si))
			frMkOut(sc, out)
			logf := filepath.Join(base, fmt.Sprintf("s%d.strace", si))
			var observations [][]frEntry
			frRunScenario(sc, out, "", 0, logf, func() { observations = append(observations, listTree(out)) })
			ops := frNamespaceOps(logf, out)
			if !replay || rin.Kill == 0 {
				if !sc.Two {
					emit(Case{Coq: fmt.Sprintf("CTrace %s %s", frCallsCoq(sc), coqList(ops)), Input: map[string]interface{}{"scenario": sc, "kill": 0},
						Impl: ops, Tags: []string{"namespace-trace"}, Nontriv: true, Key: fmt.Sprintf("trace%d", si)})
				}
				for oi, ob := range observations {
					emit(Case{Coq: fmt.Sprintf("CKill %s %s %s", frCallsCoq(sc), frEntriesCoq(ob), "None"), Input: map[string]interface{}{"scenario": sc, "kill": 0, "observation": oi},
						Impl: ob, Tags: []string{"observer"}, Nontriv: len(ob) > 0, Key: fmt.Sprintf("obs%d-%d", si, oi)})
				}
			}
			// system calls of a full run, per name (strace's injection counter is per system call number)
			counts := map[string]int{}
			{
				cnt := filepath.Join(base, "cnt.strace")
				o2 := filepath.Join(base, fmt.Sprintf("s%d-count", si))
				frMkOut(sc, o2)
				frRunScenario(sc, o2, "", -1, cnt, nil)
				b, _ := ioutil.ReadFile(cnt)
				reName := regexp.MustCompile(`^\d+\s+([a-z0-9_]+)\(`)
				for _, line := range strings.Split(string(b), "\n") {
					if m := reName.FindStringSubmatch(line); m != nil {
						counts[m[1]]++
					}
				}
			}
			type kp struct {
				name string
				k    int
			}
			var points []kp
			var names []string
			for nme := range counts {
				names = append(names, nme)
			}
			sort.Strings(names)
			for _, nme := range names {
				for k := 1; k <= counts[nme]+1; k++ {
					points = append(points, kp{nme, k})
				}
			}
			// 2. kill at every traced system call
			step := 1
			if tier != "thorough" && len(points) > 200 {
				step = len(points)/200 + 1
			}
			for pi := 0; pi < len(points); pi += step {
				killName, k := points[pi].name, points[pi].k
				if replay && rin.Kill != 0 && (k != rin.Kill || killName != rin.KillName) {
					continue
				}
				out := filepath.Join(base, fmt.Sprintf("s%d-%s%d", si, killName, k))
				frMkOut(sc, out)
				done := frRunScenario(sc, out, killName, k, "", nil)
				pre := listTree(out)
				frRecover(out)
				post := listTree(out)
				os.RemoveAll(out)
				tags := []string{fmt.Sprintf("scenario=%d", si), "kill-in=" + killName}
				if done {
					tags = append(tags, "ran-to-completion")
				} else {
					tags = append(tags, "killed")
				}
				debris := 0
				for _, e := range pre {
					if e.Ext != "cptv" {
						debris++
					}
				}
				if debris > 0 {
					tags = append(tags, "temporaries-present-at-kill")
				}
				emit(Case{Coq: fmt.Sprintf("CKill %s %s (Some %s)", frCallsCoq(sc), frEntriesCoq(pre), frEntriesCoq(post)),
					Input: map[string]interface{}{"scenario": sc, "kill": k, "kill_syscall": killName}, Impl: map[string]interface{}{"at_kill": pre, "after_recovery": post},
					Tags: tags, Nontriv: !done && debris > 0, Key: fmt.Sprintf("s%d%s%d", si, killName, k)})
			}
		}
	}
}
