package main

import (
	"bytes"
	"compress/gzip"
	"fmt"
	"io/ioutil"
	"math"
	"math/rand"
	"os"
	"path/filepath"
	"time"

	cptv "github.com/TheCacophonyProject/go-cptv"
	"github.com/TheCacophonyProject/go-cptv/cptvframe"
)

// ---- CODEC: the real Compressor on frame sequences ----
type codecInput struct {
	W      int     `json:"w"`
	H      int     `json:"h"`
	Frames [][]int `json:"frames"` // flat row-major
}
type codecObs struct {
	Width []int   `json:"width"`
	Data  [][]int `json:"data"`
	RtOK  bool    `json:"real_decompressor_roundtrip"`
}

func codecRun(in codecInput) codecObs {
	cam := testCam{in.W, in.H, 9}
	comp := cptv.NewCompressor(cam)
	dec := cptv.NewDecompressor(cam)
	var o codecObs
	o.RtOK = true
	f := cptvframe.NewFrame(cam)
	out := cptvframe.NewFrame(cam)
	for _, fr := range in.Frames {
		for y := 0; y < in.H; y++ {
			for x := 0; x < in.W; x++ {
				f.Pix[y][x] = uint16(fr[y*in.W+x])
			}
		}
		w, _, _, data := comp.Next(f)
		o.Width = append(o.Width, int(w))
		var d []int
		for _, b := range data {
			d = append(d, int(b))
		}
		o.Data = append(o.Data, d)
		if err := dec.Next(w, bytes.NewReader(append([]byte(nil), data...)), out); err != nil {
			o.RtOK = false
		}
		for y := 0; y < in.H; y++ {
			for x := 0; x < in.W; x++ {
				if out.Pix[y][x] != f.Pix[y][x] {
					o.RtOK = false
				}
			}
		}
	}
	return o
}

func codecGen(rng *rand.Rand, i int) codecInput {
	in := codecInput{W: 1 + rng.Intn(7), H: 1 + rng.Intn(6)}
	n := 1 + rng.Intn(5)
	base := rng.Intn(65536)
	for k := 0; k < n; k++ {
		fr := make([]int, in.W*in.H)
		mode := rng.Intn(6)
		for p := range fr {
			switch mode {
			case 0:
				fr[p] = base // constant frame (all deltas zero)
			case 1:
				fr[p] = []int{0, 65535}[rng.Intn(2)] // extreme alternation: widest deltas
			case 2:
				fr[p] = clamp16(base + rng.Intn(9) - 4)
			case 3:
				fr[p] = rng.Intn(65536)
			case 4:
				fr[p] = []int{0, 65535}[(p+k)%2]
			default:
				fr[p] = clamp16(base + p*37%200)
			}
		}
		if mode == 0 && rng.Intn(2) == 0 && k > 0 {
			copy(fr, in.Frames[k-1]) // identical to the previous frame
		}
		in.Frames = append(in.Frames, fr)
	}
	return in
}

func codecCoq(in codecInput, o codecObs) string {
	var fs, ds []string
	for _, f := range in.Frames {
		fs = append(fs, zlist(f))
	}
	for _, d := range o.Data {
		ds = append(ds, zlist(d))
	}
	return fmt.Sprintf("mkCase %d %d %s %s %s %s", in.W, in.H, coqList(fs), zlist(o.Width), coqList(ds), coqBool(o.RtOK))
}

// ---- CPTVHDR: the real Writer's header and frame fields ----
type hdrfInput struct {
	DeviceName, Firmware, Model, Brand, Motion string
	DeviceID, Serial, FPS, Preview              int
	Lat, Long, Alt, Acc                          float32
	LocTS                                        int64 // unix seconds, 0 = zero time
	W, H                                         int
	TimeOnNs, LastFFCNs                          int64
	TempC, LastFFCTempC                          float64
}

func hdrfRun(in hdrfInput) (hdrBytes []int, frameFields []int, tsUs int64, startErr bool) {
	dir, _ := ioutil.TempDir(runDir(), "hdrf")
	defer os.RemoveAll(dir)
	cam := testCam{in.W, in.H, in.FPS}
	name := filepath.Join(dir, "x.cptv")
	w, err := cptv.NewFileWriter(name, cam)
	if err != nil {
		panic(err)
	}
	ts := time.Date(2021, 7, 8, 9, 10, 11, 123456000, time.UTC)
	h := cptv.Header{Timestamp: ts, DeviceName: in.DeviceName, DeviceID: in.DeviceID, CameraSerial: in.Serial, Firmware: in.Firmware, PreviewSecs: in.Preview,
		MotionConfig: in.Motion, Latitude: in.Lat, Longitude: in.Long, Altitude: in.Alt, Accuracy: in.Acc, FPS: in.FPS, Brand: in.Brand, Model: in.Model,
		BackgroundFrame: cptvframe.NewFrame(cam)}
	if in.LocTS != 0 {
		h.LocTimestamp = time.Unix(in.LocTS, 0)
	}
	if err := w.WriteHeader(h); err != nil {
		w.Close()
		return nil, nil, 0, true
	}
	fr := cptvframe.NewFrame(cam)
	fr.Status = cptvframe.Telemetry{TimeOn: time.Duration(in.TimeOnNs), LastFFCTime: time.Duration(in.LastFFCNs), TempC: in.TempC, LastFFCTempC: in.LastFFCTempC}
	w.WriteFrame(fr)
	w.Close()
	b, _ := ioutil.ReadFile(name)
	gr, err := gzip.NewReader(bytes.NewReader(b))
	if err != nil {
		panic(err)
	}
	raw, _ := ioutil.ReadAll(gr)
	// header section: "CPTV" ver 'H' n fields...
	p := 7
	n := int(raw[6])
	for i := 0; i < n; i++ {
		p += 2 + int(raw[p])
	}
	for _, x := range raw[:p] {
		hdrBytes = append(hdrBytes, int(x))
	}
	// background frame section: skip; second frame section's fields
	skipFrame := func() (fields []byte) {
		if raw[p] != 'F' {
			panic("no frame section")
		}
		nf := int(raw[p+1])
		q := p + 2
		size := 0
		for i := 0; i < nf; i++ {
			l, c := int(raw[q]), raw[q+1]
			if c == 'f' {
				size = int(raw[q+2]) | int(raw[q+3])<<8 | int(raw[q+4])<<16 | int(raw[q+5])<<24
			}
			q += 2 + l
		}
		fields = raw[p+2 : q]
		p = q + size
		return
	}
	skipFrame()
	ff := skipFrame()
	for _, x := range ff {
		frameFields = append(frameFields, int(x))
	}
	return hdrBytes, frameFields, ts.UnixNano() / 1000, false
}

func hdrfGen(rng *rand.Rand, i int) hdrfInput {
	str := func(max int) string {
		n := []int{0, 1, 7, 40, 255, 256, 300}[rng.Intn(7)]
		if n > max {
			n = max
		}
		b := make([]byte, n)
		for k := range b {
			b[k] = byte(32 + rng.Intn(95))
		}
		return string(b)
	}
	f32 := func() float32 {
		return []float32{0, float32(math.Copysign(0, -1)), -43.5321, 172.6362, 1e-30, -1, 250.75}[rng.Intn(7)]
	}
	in := hdrfInput{DeviceName: str(300), Firmware: str(40), Model: str(40), Brand: str(40), Motion: str(300),
		DeviceID: []int{0, -5, 1, 77, 1 << 31, 4294967295}[rng.Intn(6)], Serial: []int{0, 1, 1 << 31, 4294967295, 123}[rng.Intn(5)],
		FPS: []int{0, 1, 9, 60, 255}[rng.Intn(5)], Preview: []int{0, 1, 5, 255}[rng.Intn(4)],
		Lat: f32(), Long: f32(), Alt: f32(), Acc: f32(), LocTS: []int64{0, 1622542830, 1}[rng.Intn(3)], W: 2 + rng.Intn(4), H: 2 + rng.Intn(3),
		TimeOnNs: []int64{0, 999999, 1000000, 61234567890, 4294967295999999, 4294967296000000, 5000000000000000}[rng.Intn(7)],
		LastFFCNs: []int64{0, 1000000000, 4294967296000001}[rng.Intn(3)],
		TempC: []float64{0, 23.7, -273.15, 382.2, 0.1}[rng.Intn(5)], LastFFCTempC: []float64{0, 21.05, 100}[rng.Intn(3)]}
	return in
}

func hdrfCoq(in hdrfInput, hb, ff []int, tsUs int64, startErr bool) string {
	fb := func(f float32) string { return fmt.Sprint(math.Float32bits(f)) }
	z := func(f float32) string { return coqBool(f == 0) }
	locus := int64(0)
	if in.LocTS != 0 {
		locus = in.LocTS * 1000000
	}
	hi := fmt.Sprintf("(mkHI %d %d %d %d %s %s %s %s %d %s %d %s %s %s %s %s %d %s %s %s %s %s true)", tsUs, in.W, in.H, in.Serial,
		strCoq(in.DeviceName), strCoq(in.Firmware), strCoq(in.Model), strCoq(in.Brand), in.FPS, zs(in.DeviceID), in.Preview, strCoq(in.Motion),
		fb(in.Lat), fb(in.Long), z(in.Lat), z(in.Long), locus, coqBool(in.LocTS == 0), fb(in.Alt), coqBool(in.Alt >= 0), fb(in.Acc), z(in.Acc))
	fi := fmt.Sprintf("(mkFI false %d %d %d %d 0 0)", in.TimeOnNs, in.LastFFCNs, math.Float32bits(float32(in.TempC)), math.Float32bits(float32(in.LastFFCTempC)))
	return fmt.Sprintf("mkCase %s %s %s %s %s", hi, fi, coqBool(startErr), zlist(hb), zlist(ff))
}

func init() {
	runners["CODEC"] = func(rng *rand.Rand, n int, tier string, emit func(Case)) {
		var rin codecInput
		if loadReplay(&rin) {
			o := codecRun(rin)
			emit(Case{Coq: codecCoq(rin, o), Input: rin, Impl: o, Key: "replay", Nontriv: true})
			return
		}
		for i := 0; i < n; i++ {
			in := codecGen(rng, i)
			o := codecRun(in)
			maxw := 0
			for _, w := range o.Width {
				if w > maxw {
					maxw = w
				}
			}
			emit(Case{Coq: codecCoq(in, o), Input: in, Impl: o, Tags: []string{fmt.Sprintf("max-bitwidth=%d", maxw)}, Nontriv: len(in.Frames) > 1, Key: fmt.Sprint(in)})
		}
	}
	runners["CPTVHDR"] = func(rng *rand.Rand, n int, tier string, emit func(Case)) {
		var rin hdrfInput
		if loadReplay(&rin) {
			hb, ff, ts, se := hdrfRun(rin)
			emit(Case{Coq: hdrfCoq(rin, hb, ff, ts, se), Input: rin, Impl: map[string]interface{}{"header": hb, "frame_fields": ff, "start_error": se}, Key: "replay", Nontriv: true})
			return
		}
		for i := 0; i < n; i++ {
			in := hdrfGen(rng, i)
			hb, ff, ts, se := hdrfRun(in)
			tags := []string{}
			if se {
				tags = append(tags, "write-header-error")
			}
			emit(Case{Coq: hdrfCoq(in, hb, ff, ts, se), Input: in, Impl: map[string]interface{}{"header": hb, "frame_fields": ff, "start_error": se}, Tags: tags, Nontriv: !se, Key: fmt.Sprint(in)})
		}
	}
}
