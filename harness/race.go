package main

import (
	"io"

	"encoding/json"
	"fmt"
	cptv "github.com/TheCacophonyProject/go-cptv"
	"io/ioutil"
	"math/rand"
	"os"
	"os/exec"
	"path/filepath"
	"regexp"
	"sort"
	"strings"
)

type raceInput struct {
	Preview, Trigger int // ring capacity = preview*9 + trigger
	Frames, Conns    int
	Requesters       int
	PauseUs          int
	RaceDetector     bool
	Const            bool // constant recorder on (snapseq runs)
	DynOff           bool `json:",omitempty"` // dynamic-threshold = false: the detector never builds a background
	BadEvery         int  `json:",omitempty"` // snapseq: a bad frame after every n-th frame
	Throttle         bool `json:",omitempty"` // snapseq: throttler on with a small bucket (6 s; minimum clip 2 s)
	SnapConns        int  `json:",omitempty"` // snapseq: the sequence is repeated over this many connections to one process
	Step             int  `json:",omitempty"` // snapseq: frame i carries (Base + i*Step) % 60000 + 1 (default step 1: no motion; 2: motion)
	Base             int  `json:",omitempty"`
}

func (in raceInput) snapValue(i int) int {
	step := in.Step
	if step == 0 {
		step = 1
	}
	return (in.Base+i*step)%60000 + 1
}

var raceVarNames = map[int]string{0: "ring-index", 1: "ring-slots", 2: "CurrentFrame", 3: "StartSnapshot", 4: "processor", 5: "headerInfo", 99: "unclassified"}

func raceRun(in raceInput) (summary map[string]interface{}, vars map[int]string, ok bool) {
	dir, _ := ioutil.TempDir(runDir(), "race")
	defer os.RemoveAll(dir)
	out := filepath.Join(dir, "out")
	os.Mkdir(out, 0755)
	toml := fmt.Sprintf("[lepton]\nframe-output = %q\n[thermal-recorder]\noutput-dir = %q\nmin-disk-space-mb = 0\npreview-secs = %d\nmin-secs = 1\nmax-secs = 3\n[windows]\nstart-recording = \"12:00\"\nstop-recording = \"12:00\"\n[thermal-throttler]\nactivate = false\n[thermal-motion]\ntrigger-frames = %d\n",
		filepath.Join(dir, "s"), out, in.Preview, in.Trigger)
	ioutil.WriteFile(filepath.Join(dir, "config.toml"), []byte(toml), 0644)
	bin := buildDir() + "/tr-driver"
	if in.RaceDetector {
		bin = buildDir() + "/tr-driver-race"
	}
	cmd := exec.Command(bin)
	cmd.Env = append(os.Environ(), "VERIF_DRIVER=race", fmt.Sprintf("VERIF_ARGS=%s %d %d %d %d", dir, in.Frames, in.Conns, in.Requesters, in.PauseUs), "GORACE=halt_on_error=0", "TZ=UTC")
	logf := filepath.Join(dir, "stderr.log")
	lf, _ := os.Create(logf)
	cmd.Stderr = lf
	stdout, _ := cmd.Output()
	lf.Close()
	for _, line := range strings.Split(string(stdout), "\n") {
		if strings.Contains(line, "race-summary") {
			json.Unmarshal([]byte(line), &summary)
			ok = true
		}
	}
	vars = map[int]string{}
	if in.RaceDetector {
		b, _ := ioutil.ReadFile(logf)
		for v, sample := range classifyRaces(string(b)) {
			vars[v] = sample
		}
	}
	return
}

// driver mode snapseq: PauseUs is reused as "send 'clear' every k frames"
func snapSeqRun(in raceInput) (summary map[string]interface{}, ok bool) {
	dir, _ := ioutil.TempDir(runDir(), "snapseq")
	defer os.RemoveAll(dir)
	out := filepath.Join(dir, "out")
	os.Mkdir(out, 0755)
	toml := fmt.Sprintf("[lepton]\nframe-output = %q\n[thermal-recorder]\noutput-dir = %q\nconstant-recorder = %v\nmin-disk-space-mb = 0\npreview-secs = %d\nmin-secs = 1\nmax-secs = 3\n[windows]\nstart-recording = \"12:00\"\nstop-recording = \"12:00\"\n[thermal-throttler]\nactivate = false\n[thermal-motion]\ntrigger-frames = %d\n",
		filepath.Join(dir, "s"), out, in.Const, in.Preview, in.Trigger)
	if in.Throttle {
		// the throttle belongs to the motion recorder alone: test recordings are never throttled
		toml = strings.Replace(toml, "activate = false\n", "activate = true\nbucket-size = \"6s\"\nmin-refill = \"10m\"\n", 1)
	}
	if in.DynOff {
		toml += "dynamic-threshold = false\n"
	}
	ioutil.WriteFile(filepath.Join(dir, "config.toml"), []byte(toml), 0644)
	cmd := exec.Command(buildDir() + "/tr-driver")
	cmd.Env = append(os.Environ(), "VERIF_DRIVER=snapseq", fmt.Sprintf("VERIF_ARGS=%s %d %d %d %d %d %d %d", dir, in.Frames, in.PauseUs, in.Requesters, in.BadEvery, max1(in.SnapConns), max1(in.Step), in.Base), "TZ=UTC")
	stdout, _ := cmd.Output()
	if in.Requesters > 0 {
		// the finished files of the output directory: test recordings (uniform frames cause no motion)
		names, _ := filepath.Glob(filepath.Join(out, "*"))
		sort.Strings(names)
		var files [][]int
		var bgs []int
		var leftovers []string
		motionFiles := 0
		for _, n := range names {
			if fi, err := os.Stat(n); err != nil || fi.IsDir() {
				continue
			}
			if !strings.HasSuffix(n, ".cptv") {
				leftovers = append(leftovers, filepath.Base(n))
				continue
			}
			if in.Step >= 2 && !isTestRecording(n) {
				// the scene warms up: motion recordings share the directory; they must decode, no more is asked here
				if v := uniformFrameValues(n); len(v) > 0 && v[len(v)-1] == -1 {
					leftovers = append(leftovers, filepath.Base(n)+" (does not decode)")
				}
				motionFiles++
				continue
			}
			files = append(files, uniformFrameValues(n))
			bgs = append(bgs, backgroundValue(n))
		}
		defer func() {
			if summary != nil {
				summary["test_files"] = files
				summary["test_backgrounds"] = bgs
				summary["leftovers"] = leftovers
				summary["motion_files"] = motionFiles
			}
		}()
	}
	for _, line := range strings.Split(string(stdout), "\n") {
		if strings.Contains(line, "snapseq-summary") {
			json.Unmarshal([]byte(line), &summary)
			ok = true
		}
	}
	return
}

// the value of pixel (60,80) of every non-background frame of a CPTV file (-1: file does not decode)
func uniformFrameValues(path string) []int {
	r, err := cptv.NewFileReader(path)
	if err != nil {
		return []int{-1}
	}
	defer r.Close()
	fr := r.EmptyFrame()
	var vals []int
	for {
		err := r.ReadFrame(fr)
		if err == io.EOF {
			break
		}
		if err != nil {
			return append(vals, -1)
		}
		if fr.Status.BackgroundFrame {
			continue
		}
		vals = append(vals, int(fr.Pix[60][80]))
	}
	return vals
}

func max1(x int) int {
	if x < 1 {
		return 1
	}
	return x
}

// a test recording is started with threshold 0 (its header says "triggeredthresh: 0")
func isTestRecording(path string) bool {
	r, err := cptv.NewFileReader(path)
	if err != nil {
		return true // judged (and failed) as a test recording
	}
	defer r.Close()
	return strings.Contains(r.MotionConfig(), "triggeredthresh: 0\n")
}

// pixel (60,80) of the background frame a CPTV file starts with (-1: none, -2: file does not decode)
func backgroundValue(path string) int {
	r, err := cptv.NewFileReader(path)
	if err != nil {
		return -2
	}
	defer r.Close()
	fr := r.EmptyFrame()
	if err := r.ReadFrame(fr); err != nil || !fr.Status.BackgroundFrame {
		return -1
	}
	return int(fr.Pix[60][80])
}

// TESTREC (C17, test-recording clause through the real wiring): the real handleConn is fed
// uniform frames one at a time; after every k-th completed frame service.TakeTestRecording() is
// called, as the D-Bus service would. Every request must yield one finished file in the output
// directory holding exactly the 21 frames that follow the request, in order.
func init() {
	runners["TESTREC"] = func(rng *rand.Rand, n int, tier string, emit func(Case)) {
		var rin raceInput
		replay := loadReplay(&rin)
		for i := 0; i < n; i++ {
			every := 23 + rng.Intn(30)
			in := raceInput{Preview: 1, Trigger: 2, Frames: 150 + rng.Intn(60), Conns: 1, Requesters: every, PauseUs: []int{0, 40}[i%2], Const: i%2 == 0 && constOK, DynOff: i%2 == 1, Throttle: i%2 == 1}
			switch i % 4 {
			case 2:
				// the camera reconnects: the same request offsets again on the second connection
				in.SnapConns, in.Frames = 2+i/4%2, 100+rng.Intn(30)
				if i/4%2 == 0 {
					// ONE request per connection, at the same frame count in each
					in.Requesters = in.Frames - 30 - rng.Intn(15)
					in.SnapConns = 3
				}
			case 3:
				// a scene that warms up fast enough to be motion all the time: test recordings overlap motion recordings
				in.DynOff, in.Throttle, in.PauseUs = false, false, 0
				in.Step, in.Base = 2, 3000
			}
			if replay {
				in, every = rin, rin.Requesters
			}
			sum, ok := snapSeqRun(in)
			why := ""
			var reqs []int
			if ok {
				for _, v := range sum["test_requests_after_frames"].([]interface{}) {
					reqs = append(reqs, int(v.(float64)))
				}
				files, _ := sum["test_files"].([][]int)
				if len(files) != len(reqs) {
					ok, why = false, fmt.Sprintf("%d requests, %d finished files", len(reqs), len(files))
				}
				for k := 0; k < len(files) && k < len(reqs); k++ {
					// frame i carries the value i%60000+1. The request is made once the ring has moved on to frame i,
					// which Process() does BEFORE it looks at the request flag for frame i: the recording starts
					// with frame i itself when the request arrives inside that window, otherwise with frame i+1 -
					// and holds the 21 consecutive frames from there
					match := false
					for _, first := range []int{reqs[k], reqs[k] + 1} {
						want := make([]int, 21)
						for j := range want {
							want[j] = in.snapValue(first + j)
						}
						if fmt.Sprint(files[k]) == fmt.Sprint(want) {
							match = true
						}
					}
					if !match {
						ok, why = false, why+fmt.Sprintf(" [request after frame %d: file holds %v]", reqs[k], files[k])
					}
				}
				// the background frame a test recording starts with is the detector's: the first frame of the connection (
				// later frames only grow, so it is never replaced) or, with the dynamic threshold off, the
				// never-updated all-zero frame
				wantBg := in.snapValue(1)
				if in.DynOff {
					wantBg = 0
				}
				bgs, _ := sum["test_backgrounds"].([]int)
				for k, b := range bgs {
					if b != wantBg {
						ok, why = false, why+fmt.Sprintf(" [file %d: background frame holds %d, the detector's holds %d]", k, b, wantBg)
					}
				}
				if l, _ := sum["leftovers"].([]string); len(l) > 0 {
					ok, why = false, why+fmt.Sprintf(" [temporaries left: %v]", l)
				}
			} else {
				why = "driver did not report"
			}
			emit(Case{Coq: fmt.Sprintf("mkLag %s %d %d", coqBool(ok), len(reqs), in.Frames), Input: in,
				Impl: map[string]interface{}{"ok": ok, "why": why, "summary": sum},
				Tags: []string{fmt.Sprintf("test-requests=%d", len(reqs)), "test-recording-e2e", fmt.Sprintf("connections=%d", max1(in.SnapConns)), fmt.Sprintf("motion-recordings-alongside=%v", sum != nil && num(sum["motion_files"]) > 0)}, Nontriv: len(reqs) >= 2, Key: fmt.Sprint("testrec", every, in.Frames)})
			if replay {
				return
			}
		}
	}
}

var reFrame = regexp.MustCompile(`^\s+(/\S+\.go):(\d+) `)

func classifyRaces(log string) map[int]string {
	res := map[int]string{}
	srcCache := map[string][]string{}
	srcLine := func(file string, line int) string {
		ls, ok := srcCache[file]
		if !ok {
			b, _ := ioutil.ReadFile(file)
			ls = strings.Split(string(b), "\n")
			srcCache[file] = ls
		}
		if line-1 >= 0 && line-1 < len(ls) {
			return ls[line-1]
		}
		return ""
	}
	for _, rep := range strings.Split(log, "WARNING: DATA RACE")[1:] {
		if i := strings.Index(rep, "=================="); i >= 0 {
			rep = rep[:i]
		}
		var tops []string // "func|source line" of the first in-repo, non-driver frame of each of the two stacks
		for _, stack := range strings.Split(strings.TrimSpace(rep), "\n\n") {
			if len(tops) == 2 {
				break
			}
			lines := strings.Split(stack, "\n")
			if !(strings.Contains(lines[0], " at 0x")) {
				continue
			}
			for i, l := range lines {
				m := reFrame.FindStringSubmatch(l)
				if m != nil && !strings.Contains(m[1], "verif_driver") && i > 0 {
					var ln int
					fmt.Sscanf(m[2], "%d", &ln)
					tops = append(tops, strings.TrimSpace(lines[i-1])+"|"+srcLine(m[1], ln))
					break
				}
			}
		}
		all := strings.Join(tops, " ## ")
		v := 99
		switch {
		case strings.Contains(all, "ReadHeaderInfo()"):
			v = 5
		case strings.Contains(all, "NewMotionProcessor()") || strings.Contains(all, "NewFrameLoop()") || strings.Contains(all, "cptvframe.NewFrame()"):
			v = 4
		case strings.Contains(all, "StartSnapshot"):
			v = 3
		case strings.Contains(all, "CurrentFrame"):
			v = 2
		case strings.Contains(all, "headerInfo"):
			v = 5
		case strings.Contains(all, "processor"):
			v = 4
		case strings.Contains(all, "(*FrameLoop).Move()") || strings.Contains(all, "currentIndex"):
			v = 0
		case strings.Contains(all, "(*FrameLoop)") || strings.Contains(all, "(*Frame).C") || strings.Contains(all, "ParseRawFrame"):
			v = 1
		}
		if _, seen := res[v]; !seen {
			res[v] = all
		}
	}
	return res
}

func init() {
	runners["RACE"] = func(rng *rand.Rand, n int, tier string, emit func(Case)) {
		frames := 300
		if tier == "thorough" {
			frames = 3000
		}
		// 1. whole-frame clause, ring capacity >= 2 (default-like configuration), two connections
		{
			in := raceInput{Preview: 1, Trigger: 2, Frames: frames, Conns: 2, Requesters: 6, PauseUs: 150}
			sum, _, ok := raceRun(in)
			torn, blank, snaps := num(sum["torn"]), num(sum["blank"]), num(sum["snapshots"])
			emit(Case{Coq: fmt.Sprintf("CWhole %d %d %d %s", in.Preview*9+in.Trigger, snaps, torn, coqBool(ok)), Input: in, Impl: sum,
				Tags: []string{"whole-frame", "ring>=2"}, Nontriv: snaps > 100, Key: "whole"})
			if blank > 0 {
				emit(Case{Coq: fmt.Sprintf("CBlank %d", blank), Input: in, Impl: sum, Tags: []string{"blank-before-first-frame"}, Nontriv: true, Key: "blank",
					Extra: map[string]interface{}{"finding": "request-before-first-frame", "expect_fail": true}})
			}
		}
		// 1b. the smallest ring for which the property is claimed: capacity 2 (preview-secs 0,
		// trigger-frames 2): the slot being copied is the one the loop writes next but one
		{
			in := raceInput{Preview: 0, Trigger: 2, Frames: frames, Conns: 1, Requesters: 8, PauseUs: 0}
			sum, _, ok := raceRun(in)
			torn, snaps := num(sum["torn"]), num(sum["snapshots"])
			emit(Case{Coq: fmt.Sprintf("CWhole 2 %d %d %s", snaps, torn, coqBool(ok)), Input: in, Impl: sum,
				Tags: []string{"whole-frame", "ring=2"}, Nontriv: snaps > 100, Key: "whole2"})
		}
		// 2. ring capacity 1: known finding (torn copies possible)
		{
			in := raceInput{Preview: 0, Trigger: 1, Frames: frames, Conns: 1, Requesters: 8, PauseUs: 0}
			sum, _, ok := raceRun(in)
			torn, snaps := num(sum["torn"]), num(sum["snapshots"])
			emit(Case{Coq: fmt.Sprintf("CWhole 1 %d %d %s", snaps, torn, coqBool(ok)), Input: in, Impl: sum, Tags: []string{"whole-frame", "ring=1"}, Nontriv: snaps > 100, Key: "whole1",
				Extra: map[string]interface{}{"finding": "ring-size-1", "expect_fail": true}})
		}
		// 2b. freshness (sequential schedule): after each processed frame, and again after a
		// camera 'clear', the snapshot is the last completed frame
		{
			in := raceInput{Preview: 1, Trigger: 2, Frames: frames / 2, Conns: 1, Requesters: 0, PauseUs: 7, BadEvery: 11}
			sum, ok := snapSeqRun(in)
			stale, checks := num(sum["stale"])+num(sum["stale_after_clear"])+num(sum["stale_after_bad"]), num(sum["checks"])+num(sum["after_clear"])+num(sum["after_bad"])
			emit(Case{Coq: fmt.Sprintf("CFresh %d %d %s", checks, stale, coqBool(ok)), Input: in, Impl: sum,
				Tags: []string{"freshness", "clear-then-snapshot", "bad-frame-then-snapshot"}, Nontriv: checks > 50, Key: "fresh"})
		}
		// 3. data-race clause with the race detector
		{
			in := raceInput{Preview: 1, Trigger: 2, Frames: frames / 2, Conns: 2, Requesters: 6, PauseUs: 200, RaceDetector: true}
			_, vars, ok := raceRun(in)
			var ks []int
			for v := range vars {
				ks = append(ks, v)
			}
			sort.Ints(ks)
			emit(Case{Coq: fmt.Sprintf("CRaceRun %s %s", zlist(ks), coqBool(ok)), Input: in, Impl: vars, Tags: []string{"race-detector-run"}, Nontriv: true, Key: "racerun"})
			for _, v := range ks {
				emit(Case{Coq: fmt.Sprintf("CRaceVar %d", v), Input: in, Impl: map[string]string{"variable": raceVarNames[v], "report": vars[v]},
					Tags: []string{"race:" + raceVarNames[v]}, Nontriv: true, Key: fmt.Sprintf("race%d", v),
					Extra: map[string]interface{}{"finding": "race-var=" + raceVarNames[v], "expect_fail": true}})
			}
		}
	}
}

func num(v interface{}) int {
	if f, ok := v.(float64); ok {
		return int(f)
	}
	if i, ok := v.(int); ok {
		return i
	}
	return 0
}
