package main

import (
	"bufio"
	"bytes"
	"fmt"
	"io"
	"io/ioutil"
	"math/rand"
	"strings"

	"github.com/TheCacophonyProject/thermal-recorder/headers"
	yaml "gopkg.in/yaml.v1"
)

type hdrDesc struct {
	ResX, ResY, FPS, FrameSize, Serial int
	Brand, Model, Firmware             string
}
type hdrInput struct {
	Desc   hdrDesc `json:"desc"`
	Chunks []int   `json:"chunk_sizes"`
	After  []int   `json:"bytes_after_header"`
}
type hdrObs struct {
	Err       bool    `json:"err"`
	Got       hdrDesc `json:"got"`
	Remaining []int   `json:"remaining"`
	TruncErrs []bool  `json:"trunc_errs"` // one per truncation point 0..len(header)-1
	Yaml      []int   `json:"yaml"`
}

// chunkReader returns the data in the given chunk sizes (cycled), one chunk per Read call
type chunkReader struct {
	data   []byte
	sizes  []int
	i      int
	chunks [][]byte
}

func (c *chunkReader) Read(p []byte) (int, error) {
	if len(c.data) == 0 {
		return 0, io.EOF
	}
	n := c.sizes[c.i%len(c.sizes)]
	c.i++
	if n > len(c.data) {
		n = len(c.data)
	}
	if n > len(p) {
		n = len(p)
	}
	copy(p, c.data[:n])
	c.chunks = append(c.chunks, append([]byte(nil), c.data[:n]...))
	c.data = c.data[n:]
	return n, nil
}

// what cmd/leptond sendCameraSpecs does
func hdrEncode(d hdrDesc) []byte {
	m := map[string]interface{}{
		headers.XResolution: d.ResX, headers.YResolution: d.ResY, headers.FrameSize: d.FrameSize,
		headers.Model: d.Model, headers.Brand: d.Brand, headers.FPS: d.FPS, headers.Serial: d.Serial, headers.Firmware: d.Firmware,
	}
	b, err := yaml.Marshal(m)
	if err != nil {
		panic(err)
	}
	return b
}

func hdrRun(in hdrInput) (hdrObs, [][]byte) {
	y := hdrEncode(in.Desc)
	var o hdrObs
	for _, b := range y {
		o.Yaml = append(o.Yaml, int(b))
	}
	all := append(append([]byte(nil), y...), '\n')
	for _, b := range in.After {
		all = append(all, byte(b))
	}
	cr := &chunkReader{data: all, sizes: in.Chunks}
	r := bufio.NewReader(cr)
	h, err := headers.ReadHeaderInfo(r)
	if err != nil {
		o.Err = true
	} else {
		o.Got = hdrDesc{h.ResX(), h.ResY(), h.FPS(), h.FrameSize(), h.CameraSerial(), h.Brand(), h.Model(), h.Firmware()}
	}
	rest, _ := ioutil.ReadAll(r)
	for _, b := range rest {
		o.Remaining = append(o.Remaining, int(b))
	}
	chunks := cr.chunks
	// every truncation point of the header (before the final newline of the blank line)
	full := append(append([]byte(nil), y...), '\n')
	for k := 0; k < len(full); k++ {
		_, err := headers.ReadHeaderInfo(bufio.NewReader(&chunkReader{data: append([]byte(nil), full[:k]...), sizes: in.Chunks}))
		o.TruncErrs = append(o.TruncErrs, err != nil)
	}
	return o, chunks
}

var hostile = []string{"1.2", "true", "~", "null", " leading", "trailing ", "a: b", "# not a comment", "flir", "lepton3", "lepton3.5", "boson", "1.2.3", "0x10", "010",
	"émoji ✓", "-", "- item", "{x}", "[1]", "'quoted'", "\"dq\"", "yes", "No", "1e3", ".5", "multi word name", "", "a#b", "x:y", "|", ">", "*", "&a", "!tag", "%", "@", "`",
	// long values (the encoder folds them onto indented continuation lines) and values with a line break (literal blocks)
	"firmware build 2021-11-09 for the thermal camera module with extended telemetry and a rather long descriptive name",
	"two\nlines", "indented\n  second line", "trailing newline\n",
	// values other YAML dialects read as something else than a string (dates, octal, sexagesimal, merge key)
	"2020-03-17", "2019-11-4", "2021-06-01 12:30:00", "2001-12-14t21:59:43.10-05:00", "0o17", "190:20:30", "<<", "=", "1_000", "+.inf", ".NaN", "0b101", "y", "n", "on", "off",
	"averyveryveryveryveryveryveryveryveryveryveryveryveryveryveryveryveryveryveryveryverylongtokenwithoutanyspaces"}

func hdrGen(rng *rand.Rand, i int) hdrInput {
	var in hdrInput
	s := func() string {
		if rng.Intn(3) == 0 {
			return []string{"flir", "lepton3", "lepton3.5", "boson", "1.0.0"}[rng.Intn(5)]
		}
		return hostile[rng.Intn(len(hostile))]
	}
	in.Desc = hdrDesc{ResX: 1 + rng.Intn(640), ResY: 1 + rng.Intn(512), FPS: 1 + rng.Intn(60), Serial: rng.Intn(1 << 31), Brand: s(), Model: s(), Firmware: s()}
	in.Desc.FrameSize = 2 * in.Desc.ResX * in.Desc.ResY
	if rng.Intn(2) == 0 {
		in.Desc.FrameSize += 640
	}
	if rng.Intn(10) == 0 {
		in.Desc.Serial = 0
	}
	for k := 0; k < 1+rng.Intn(4); k++ {
		in.Chunks = append(in.Chunks, []int{1, 2, 3, 5, 7, 16, 64, 4096, 1 + rng.Intn(40)}[rng.Intn(9)])
	}
	n := rng.Intn(40)
	for k := 0; k < n; k++ {
		in.After = append(in.After, []int{10, 32, 99, 108, rng.Intn(256)}[rng.Intn(5)])
	}
	return in
}

func strCoq(s string) string { return bytesCoq([]byte(s)) }

func hdrCoq(in hdrInput, o hdrObs, chunks [][]byte) string {
	d := func(x hdrDesc) string {
		return fmt.Sprintf("(mkDesc %d %d %d %d %d %s %s %s)", x.ResX, x.ResY, x.FPS, x.FrameSize, x.Serial, strCoq(x.Brand), strCoq(x.Model), strCoq(x.Firmware))
	}
	var cs []string
	for _, c := range chunks {
		cs = append(cs, bytesCoq(c))
	}
	return fmt.Sprintf("mkCase %s %s %s %s %s %s %s", d(in.Desc), zlist(o.Yaml), coqList(cs), coqBool(o.Err), d(o.Got), zlist(o.Remaining), coqBools(o.TruncErrs))
}

var _ = bytes.Equal

func init() {
	runners["HEADER"] = func(rng *rand.Rand, n int, tier string, emit func(Case)) {
		var rin hdrInput
		if loadReplay(&rin) {
			o, ch := hdrRun(rin)
			emit(Case{Coq: hdrCoq(rin, o, ch), Input: rin, Impl: o, Key: "replay", Nontriv: true})
			return
		}
		for i := 0; i < n; i++ {
			in := hdrGen(rng, i)
			tags := []string{}
			if i < 4 {
				// a header line whose length is at / next to the reader's buffer size (4096): "Firmware: " + value + newline
				in.Desc.Firmware = strings.Repeat("f", 4084+i)
				if in.Chunks[0] == 1 {
					in.Chunks = []int{4096, 7}
				}
				tags = append(tags, "line-of-buffer-size")
			}
			o, ch := hdrRun(in)
			if len(ch) > 3 {
				tags = append(tags, "split-into>3-reads")
			}
			if in.Chunks[0] == 1 {
				tags = append(tags, "byte-by-byte")
			}
			if len(in.After) > 0 {
				tags = append(tags, "data-after-header")
			}
			emit(Case{Coq: hdrCoq(in, o, ch), Input: in, Impl: o, Tags: tags, Nontriv: len(ch) > 1, Key: fmt.Sprint(in.Desc, in.Chunks)})
		}
	}
}
