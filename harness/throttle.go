package main

import (
	"errors"
	"fmt"
	"io/ioutil"
	"log"
	"math/big"
	"math/rand"
	"strings"
	"time"

	config "github.com/TheCacophonyProject/go-config"
	"github.com/TheCacophonyProject/go-cptv/cptvframe"
	"github.com/TheCacophonyProject/thermal-recorder/throttle"
)

type thCall struct {
	K      string `json:"k"` // check | start | write | stop
	ID     int    `json:"id,omitempty"`
	BG     int    `json:"bg,omitempty"`
	Thresh int    `json:"thresh,omitempty"`
	T1     int64  `json:"t1,omitempty"` // clock readings (ns since bucket start) this call may consume
	T2     int64  `json:"t2,omitempty"`
}

type thInput struct {
	BucketSecs  int      `json:"bucket_secs"`
	RefillNs    int64    `json:"min_refill_ns"`
	MinSecs     int      `json:"min_plus_preview_secs"`
	FPS         int      `json:"fps"`
	Faults      []bool   `json:"base_faults"`
	Calls       []thCall `json:"calls"`
	Conforming  bool     `json:"conforming"`
}

type thOut struct {
	T      string `json:"t"` // bcheck bstart bwrite bstop throttled ret
	ID     int    `json:"id,omitempty"`
	BG     int    `json:"bg,omitempty"`
	Thresh int    `json:"thresh,omitempty"`
	At     int64  `json:"at,omitempty"`
	Fail   bool   `json:"fail,omitempty"`
}

type thParams struct {
	Cap, Q, Fi, MinLen int64
}

type scriptClock struct {
	base  time.Time
	queue []int64
	last  int64
}

func (c *scriptClock) Now() time.Time {
	if len(c.queue) > 0 {
		c.last = c.queue[0]
		c.queue = c.queue[1:]
	}
	return c.base.Add(time.Duration(c.last))
}
func (c *scriptClock) Sleep(d time.Duration) {}

type thBase struct {
	faults []bool
	pos    int
	outs   *[]thOut
	clock  *scriptClock
}

func (b *thBase) next() bool {
	f := false
	if b.pos < len(b.faults) {
		f = b.faults[b.pos]
	}
	b.pos++
	return f
}
func (b *thBase) ret(o thOut) error {
	o.Fail = b.next()
	*b.outs = append(*b.outs, o)
	if o.Fail {
		return errors.New("scripted")
	}
	return nil
}
func (b *thBase) StopRecording() error { return b.ret(thOut{T: "bstop"}) }
func (b *thBase) StartRecording(bg *cptvframe.Frame, th uint16) error {
	id := -1
	if bg != nil {
		id = getID(bg)
	}
	return b.ret(thOut{T: "bstart", BG: id, Thresh: int(th)})
}
func (b *thBase) WriteFrame(f *cptvframe.Frame) error {
	return b.ret(thOut{T: "bwrite", ID: getID(f), At: b.clock.last})
}
func (b *thBase) CheckCanRecord() error { return b.ret(thOut{T: "bcheck"}) }

type thListener struct{ outs *[]thOut }

func (l *thListener) WhenThrottled() { *l.outs = append(*l.outs, thOut{T: "throttled"}) }

func thRun(in thInput) (thParams, [][]thOut) {
	log.SetOutput(ioutil.Discard)
	cam := testCam{4, 4, in.FPS}
	clock := &scriptClock{base: time.Date(2021, 5, 1, 12, 0, 0, 0, time.UTC)}
	var outs []thOut
	base := &thBase{faults: in.Faults, outs: &outs, clock: clock}
	conf := &config.ThermalThrottler{Activate: true, BucketSize: time.Duration(in.BucketSecs) * time.Second, MinRefill: time.Duration(in.RefillNs)}
	tr := throttle.NewThrottledRecorderWithClock(base, conf, in.MinSecs, &thListener{&outs}, clock, cam)
	cp, q, fi := tr.VerifBucketParams()
	p := thParams{cp, q, int64(fi), tr.VerifMinRecordingLength()}
	var trace [][]thOut
	bgs := map[int]*cptvframe.Frame{}
	for _, c := range in.Calls {
		outs = nil
		var err error
		switch c.K {
		case "check":
			err = tr.CheckCanRecord()
		case "start":
			clock.queue = []int64{c.T1}
			bg, ok := bgs[c.BG]
			if !ok {
				bg = cptvframe.NewFrame(cam)
				setID(bg, c.BG)
				bgs[c.BG] = bg
			}
			err = tr.StartRecording(bg, uint16(c.Thresh))
		case "write":
			clock.queue = []int64{c.T1, c.T2}
			f := cptvframe.NewFrame(cam)
			setID(f, c.ID)
			err = tr.WriteFrame(f)
		case "stop":
			err = tr.StopRecording()
		}
		outs = append(outs, thOut{T: "ret", Fail: err != nil})
		trace = append(trace, outs)
	}
	return p, trace
}

func thGen(rng *rand.Rand, i int) thInput {
	var in thInput
	in.FPS = 1 + rng.Intn(9)
	in.BucketSecs = 1 + rng.Intn(60)
	if rng.Intn(3) > 0 {
		in.BucketSecs = 1 + rng.Intn(6) // small buckets: the throttle actually engages
	}
	refills := []int64{int64(time.Second), int64(10 * time.Second), int64(time.Minute), int64(10 * time.Minute), int64(time.Hour), int64(2 * time.Hour), int64(1500 * time.Millisecond), int64(7 * time.Second)}
	in.RefillNs = refills[rng.Intn(len(refills))]
	in.MinSecs = 1 + rng.Intn(15)
	if rng.Intn(2) == 0 && in.MinSecs > in.BucketSecs {
		in.MinSecs = 1 + rng.Intn(in.BucketSecs) // mostly make recording possible
	}
	in.Conforming = i%8 != 7
	pf := []float64{0, 0, 0.05, 0.2}[rng.Intn(4)]
	// learn fi for boundary-aimed gaps
	probe := in
	p, _ := thRun(probe)
	fi := p.Fi
	frameNs := int64(time.Second) / int64(in.FPS)
	var t int64
	gap := func() int64 {
		switch rng.Intn(10) {
		case 0:
			return 0
		case 1:
			return fi
		case 2:
			return fi - 1
		case 3:
			return fi + 1
		case 4:
			return fi*int64(1+rng.Intn(int(p.Cap)+3)) + int64(rng.Intn(3)) - 1
		case 5:
			return fi * (p.Cap + p.MinLen + int64(rng.Intn(50))) // long idle: bucket refills completely
		case 6:
			return in.RefillNs
		default:
			return int64(rng.Intn(20)) * frameNs
		}
	}
	nextID := 0
	ncalls := 40 + rng.Intn(140)
	for len(in.Faults) < 2*ncalls {
		in.Faults = append(in.Faults, rng.Float64() < pf)
	}
	if in.Conforming {
		// generate adaptively: we need return values, so run prefix by prefix (cheap: small inputs)
		for len(in.Calls) < ncalls {
			t += gap()
			if rng.Intn(3) == 0 {
				in.Calls = append(in.Calls, thCall{K: "check"})
			}
			in.Calls = append(in.Calls, thCall{K: "start", BG: 100 + rng.Intn(5), Thresh: 2000 + rng.Intn(1000), T1: t})
			_, tr := thRun(in)
			last := tr[len(tr)-1]
			if last[len(last)-1].Fail {
				continue // start returned an error: the client issues nothing further
			}
			var nw int
			switch rng.Intn(6) {
			case 0:
				nw = 0
			case 1:
				nw = int(p.MinLen) + rng.Intn(3) - 1
			case 2:
				nw = int(p.Cap) + rng.Intn(5) - 2
			case 3:
				nw = int(p.Cap) + int(p.MinLen) + rng.Intn(20)
			default:
				nw = rng.Intn(int(p.Cap) + 5)
			}
			if nw < 0 {
				nw = 0
			}
			if nw > 70 {
				nw = 70
			}
			for j := 0; j < nw && len(in.Calls) < ncalls+100; j++ {
				step := frameNs
				if rng.Intn(15) == 0 {
					step = gap()
				}
				t += step
				d := int64(0)
				if rng.Intn(4) == 0 {
					d = int64(rng.Intn(3)) * fi / 2
				}
				in.Calls = append(in.Calls, thCall{K: "write", ID: nextID, T1: t, T2: t + d})
				t += d
				nextID++
			}
			in.Calls = append(in.Calls, thCall{K: "stop"})
		}
	} else {
		for len(in.Calls) < ncalls {
			t += gap() / int64(1+rng.Intn(4))
			switch rng.Intn(8) {
			case 0:
				in.Calls = append(in.Calls, thCall{K: "check"})
			case 1:
				in.Calls = append(in.Calls, thCall{K: "start", BG: 100 + rng.Intn(5), Thresh: 2000 + rng.Intn(1000), T1: t})
			case 2:
				in.Calls = append(in.Calls, thCall{K: "stop"})
			default:
				in.Calls = append(in.Calls, thCall{K: "write", ID: nextID, T1: t, T2: t + int64(rng.Intn(2))*fi})
				nextID++
			}
		}
	}
	return in
}

func thOutCoq(o thOut) string {
	switch o.T {
	case "bcheck":
		return "BCheck " + coqBool(o.Fail)
	case "bstart":
		return fmt.Sprintf("BStart %s %d %s", zs(o.BG), o.Thresh, coqBool(o.Fail))
	case "bwrite":
		return fmt.Sprintf("BWrite %d %d %s", o.ID, o.At, coqBool(o.Fail))
	case "bstop":
		return "BStop " + coqBool(o.Fail)
	case "throttled":
		return "Throttled"
	}
	return "Ret " + coqBool(o.Fail)
}

func thCoq(in thInput, p thParams, tr [][]thOut) string {
	var ss []string
	for i, c := range in.Calls {
		var u string
		switch c.K {
		case "check":
			u = "UCheck"
		case "start":
			u = fmt.Sprintf("UStart %d %d %d", c.BG, c.Thresh, c.T1)
		case "write":
			u = fmt.Sprintf("UWrite %d %d %d", c.ID, c.T1, c.T2)
		case "stop":
			u = "UStop"
		}
		var os []string
		for _, o := range tr[i] {
			os = append(os, thOutCoq(o))
		}
		ss = append(ss, fmt.Sprintf("(%s,%s)", u, coqList(os)))
	}
	// rate hypothesis operands: minFrames per refill period
	return fmt.Sprintf("mkCase %d %d %d %d %d %d %d %s %s %s", p.Cap, p.Q, p.Fi, p.MinLen,
		int64(in.BucketSecs)*int64(in.FPS), int64(in.MinSecs*in.FPS), in.RefillNs, coqBool(in.Conforming), coqBools(in.Faults), coqList(ss))
}

var _ = big.NewInt

func init() {
	runners["THROTTLE"] = func(rng *rand.Rand, n int, tier string, emit func(Case)) {
		var rin thInput
		if loadReplay(&rin) {
			p, tr := thRun(rin)
			emit(Case{Coq: thCoq(rin, p, tr), Input: rin, Impl: tr, Key: "replay", Nontriv: true, Extra: map[string]interface{}{"params": p}})
			return
		}
		for i := 0; i < n; i++ {
			in := thGen(rng, i)
			p, tr := thRun(in)
			th, bw, bs := 0, 0, 0
			var kb strings.Builder
			fmt.Fprintf(&kb, "%d/%d/%d/%d:", in.BucketSecs, in.RefillNs, in.MinSecs, in.FPS)
			for _, os := range tr {
				for _, o := range os {
					switch o.T {
					case "throttled":
						th++
						kb.WriteByte('T')
					case "bwrite":
						bw++
						kb.WriteByte('w')
					case "bstart":
						bs++
						kb.WriteByte('S')
					case "bstop":
						kb.WriteByte('s')
					}
				}
			}
			tags := []string{fmt.Sprintf("q=%d", p.Q)}
			add := func(c bool, t string) {
				if c {
					tags = append(tags, t)
				}
			}
			add(th > 0, "throttled")
			add(th == 0, "transparent")
			add(bs >= 2, "base-starts>=2")
			add(in.Conforming, "conforming")
			add(!in.Conforming, "arbitrary-calls")
			add(p.MinLen > p.Cap, "minlen>cap")
			emit(Case{Coq: thCoq(in, p, tr), Input: in, Impl: tr, Tags: tags, Nontriv: th > 0 && bw > 0, Key: kb.String(),
				Extra: map[string]interface{}{"params": p}})
		}
	}
}
